"""One choice sequence decides everything.

Every decision of a simulated run (world shape, tool options, worker count, task
order, delivery timing, fault site and kind, damage site, poison) is a bounded
integer drawn through `ChoiceSource.draw(label, lo, hi)`.  The list of draws is the
*choice log*; replaying the log reproduces the run exactly.

lo is always the "simplest" alternative: the shrinker drives values towards lo and
deletes draws, so smaller/shorter means a simpler world, an orderlier schedule and
fewer faults.
"""
import hashlib
import random


class ReplayMismatch(Exception):
    """Strict replay met a draw that the recorded log does not contain (harness error)."""


def case_seed(verif_seed, prop, case_no):
    h = hashlib.sha256(f"{verif_seed}/{prop}/{case_no}".encode()).digest()
    return int.from_bytes(h[:8], "big")


class ChoiceSource:
    """Base: subclasses implement _next(label, lo, hi)."""

    def __init__(self, forced=None):
        self.log = []          # [(label, lo, hi, value)]
        self.forced = dict(forced or {})
        self.forced_fn = None

    def _next(self, label, lo, hi):
        raise NotImplementedError

    def draw(self, label, lo, hi):
        lo = int(lo)
        hi = int(hi)
        if hi < lo:
            raise ValueError(f"empty range for {label}: {lo}..{hi}")
        if lo == hi:
            # degenerate draws are not logged (they carry no information)
            return lo
        fv = self.forced.get(label)
        if fv is None and self.forced_fn is not None:
            fv = self.forced_fn(label, lo, hi)
        if fv is not None:
            # forced (enumerated) draws are set by the case code itself (also when the
            # case is replayed) and are logged like any other draw
            v = min(max(int(fv), lo), hi)
            self._on_forced(label, lo, hi, v)
        else:
            v = self._next(label, lo, hi)
        self.log.append((label, lo, hi, v))
        return v

    def _on_forced(self, label, lo, hi, v):
        pass

    # helpers -----------------------------------------------------------------
    def flag(self, label, p_den=2):
        """True with probability ~1/p_den under the random source; 0(False) is simplest."""
        return self.draw(label, 0, p_den - 1) == p_den - 1

    def choice(self, label, seq):
        seq = list(seq)
        return seq[self.draw(label, 0, len(seq) - 1)]

    def weighted(self, label, pairs):
        """pairs: [(value, weight)], first is simplest."""
        total = sum(w for _, w in pairs)
        r = self.draw(label, 0, total - 1)
        acc = 0
        for v, w in pairs:
            acc += w
            if r < acc:
                return v
        return pairs[-1][0]

    def perm(self, label, n):
        """A permutation of range(n) from a single draw (Lehmer code); 0 = identity."""
        if n <= 1:
            return list(range(n))
        if n > 8:
            # too big for one draw: insertion draws
            out = list(range(n))
            for i in range(n - 1):
                j = self.draw(f"{label}.{i}", 0, n - 1 - i)
                out[i], out[i + j] = out[i + j], out[i]
            return out
        fact = 1
        for i in range(2, n + 1):
            fact *= i
        code = self.draw(label, 0, fact - 1)
        return perm_from_index(n, code)

    def subset(self, label, n, min_size=0):
        """A subset of range(n) as sorted list; one draw per element would bloat: one bitmask draw."""
        if n == 0:
            return []
        if n > 20:
            # too many elements for one bitmask draw: a size and a sampling seed
            k = self.draw(f"{label}.k", max(1, min_size), min(n, max(8, min_size)))
            rnd = random.Random(self.draw(f"{label}.seed", 0, 99999))
            return sorted(rnd.sample(range(n), k))
        while True:
            m = self.draw(label, 0, (1 << n) - 1)
            s = [i for i in range(n) if m >> i & 1]
            if len(s) >= min_size:
                return s
            # make deterministic progress without re-drawing: fill from the low end
            need = min_size - len(s)
            for i in range(n):
                if i not in s:
                    s.append(i)
                    need -= 1
                    if need == 0:
                        break
            return sorted(s)

    def u64(self, label):
        return self.draw(label, 0, (1 << 63) - 1)


def perm_from_index(n, code):
    elems = list(range(n))
    out = []
    fact = 1
    for i in range(2, n):
        fact *= i
    # fact = (n-1)!
    for i in range(n - 1, 0, -1):
        q, code = divmod(code, fact)
        out.append(elems.pop(q))
        fact //= i
    out.append(elems.pop(0))
    return out


class RandomSource(ChoiceSource):
    def __init__(self, seed, forced=None):
        super().__init__(forced)
        self.seed = seed
        self.rng = random.Random(seed)

    def _next(self, label, lo, hi):
        # bias towards small values a little: with prob 1/8 return lo
        r = self.rng
        if r.random() < 0.125:
            return lo
        return r.randint(lo, hi)


class ReplaySource(ChoiceSource):
    """Values from a recorded log.

    strict:  label and bounds must match, exhausted log is an error (exact replay).
    lenient: values are clipped into the bounds asked for, labels ignored, an
             exhausted log yields lo (used by the shrinker).
    """

    def __init__(self, choices, strict=True, forced=None):
        super().__init__(forced)
        self.choices = list(choices)
        self.pos = 0
        self.strict = strict
        self.overrun = 0

    def _on_forced(self, label, lo, hi, v):
        # a forced draw occupies one slot of the recorded log as well
        if self.pos < len(self.choices):
            rec = self.choices[self.pos]
            if self.strict:
                if rec[0] != label or rec[3] != v:
                    raise ReplayMismatch(
                        f"draw #{self.pos}: recorded {tuple(rec)} but code forced ({label}={v})")
                self.pos += 1
            elif rec[0] == label:
                self.pos += 1
        elif self.strict:
            raise ReplayMismatch(f"log exhausted at forced draw {label}")

    def _next(self, label, lo, hi):
        if self.pos >= len(self.choices):
            if self.strict:
                raise ReplayMismatch(f"log exhausted at draw {label} [{lo},{hi}]")
            self.overrun += 1
            return lo
        rec = self.choices[self.pos]
        self.pos += 1
        if self.strict:
            if rec[0] != label or rec[1] != lo or rec[2] != hi:
                raise ReplayMismatch(
                    f"draw #{self.pos - 1}: recorded {rec[:3]} but code asked ({label},{lo},{hi})")
            return rec[3]
        v = rec[3]
        return min(max(v, lo), hi)
