"""Per-case simulation context: choice source, event log, counters, audit monitor,
fault plan, environment seams.  One `Ctx` per simulated run; `CUR` is the active one.
"""
import builtins
import collections
import errno
import hashlib
import io
import os
import re
import sys
import time as _time

CUR = None            # active Ctx or None
_AUDIT_INSTALLED = False
_REAL_OPEN = builtins.open
_REAL_IO_OPEN = io.open
_REAL_MKDIR = os.mkdir
_REAL_TIME = _time.time
_REAL_LISTDIR = os.listdir

FROZEN_TIME = 1_700_000_000.0


class Violation(Exception):
    """The property was violated by the real code on this run."""

    def __init__(self, sig, msg):
        super().__init__(msg)
        self.sig = dict(sig)
        self.msg = msg


class HarnessError(Exception):
    pass


class Discard(Exception):
    """The drawn case does not meet the property's precondition (counted, not a verdict)."""


WRITE_FLAGS = os.O_WRONLY | os.O_RDWR | os.O_CREAT | os.O_TRUNC | os.O_APPEND


class Ctx:
    def __init__(self, src, scratch, prop="?", tier="quick"):
        self.src = src
        self.scratch = scratch          # absolute path of this case's private scratch dir
        self.prop = prop
        self.tier = tier
        self.events = []                # logical event log (no pids, no absolute paths, no times)
        self.stats = collections.Counter()
        self.sigs = set()               # schedule signatures reached
        self.describe = {"operations": [], "schedules": [], "faults": [], "damage": []}
        self.pools = []
        self.pool_src = None            # optional separate source for schedule draws
        self.pool_seq = 0
        self.op_seq = 0
        # audit monitor
        self.recording = False
        self.actor = "parent"           # "parent" or "p<pool>.c<call>.u<unit>"
        self.writes = []                # (actor, kind, path)
        self.reads = []                 # (actor, path)
        # fault plan
        self.fault_plan = {}            # site index -> kind
        self.fault_sticky = False
        self.sticky_paths = set()
        self.sticky_all = False
        self.site_counter = 0
        self.sites = []                 # description of every site passed (pilot run)
        self.faults_fired = []
        self.read_fault_paths = {}      # abspath -> errno for "unreadable input"
        self.inject = False
        self.nontrivial = False
        self.notes = []
        self.fork_mode = False
        self.poison = None
        self.steps = 0
        self.step_cap = 200000
        self.clock_ticks = 0
        self.mtime_clock = 0.0
        self._ncpu = None               # simulated machine size, drawn when the package first asks for it

    # ------------------------------------------------------------------ logging
    def rel(self, p):
        try:
            p = os.fspath(p)
        except TypeError:
            return repr(p)
        if isinstance(p, bytes):
            p = p.decode("utf8", "replace")
        ap = os.path.abspath(p)
        if ap == self.scratch or ap.startswith(self.scratch + os.sep):
            return "$S" + ap[len(self.scratch):]
        return ap

    def clean(self, text):
        return str(text).replace(self.scratch, "$S")

    def ev(self, *parts):
        self.events.append(self.clean(" ".join(str(p) for p in parts)))
        self.steps += 1
        if self.steps > self.step_cap:
            raise HarnessError("step cap exceeded")

    def digest(self):
        h = hashlib.sha256()
        for e in self.events:
            h.update(e.encode("utf8", "replace"))
            h.update(b"\n")
        for c in self.src.log:
            h.update(repr(tuple(c)).encode())
        return "sha256:" + h.hexdigest()

    def probe(self, name, n=1):
        self.stats["probe." + name] += n

    # ------------------------------------------------------------------ pools
    def drain_pools(self):
        """Let every not-terminated pool finish the units it still holds (what real
        background workers would do) before invariants are evaluated."""
        for p in list(self.pools):
            p._drain()

    def reset_pools(self, keep_pathos_cache=False):
        for p in list(self.pools):
            p._shutdown()
        self.pools = []
        self._ncpu = None
        if not keep_pathos_cache:
            from .forkpool import pathos_clear
            pathos_clear(self)


# ============================================================================ audit hook

def _path_of(x):
    if isinstance(x, int) or x is None:
        return None
    try:
        p = os.fspath(x)
    except TypeError:
        return None
    if isinstance(p, bytes):
        p = p.decode("utf8", "replace")
    return os.path.abspath(p)


_DIRFD_LAST = ("os.mkdir", "os.remove", "os.rmdir", "os.chmod", "os.utime", "os.chown",
               "os.mkfifo", "os.mknod", "shutil.rmtree")


def _path_at(x, dir_fd):
    """Path of an audited call that may be relative to a directory descriptor."""
    if isinstance(dir_fd, int) and not isinstance(dir_fd, bool):
        try:
            p = os.fspath(x)
            if isinstance(p, bytes):
                p = p.decode("utf8", "replace")
            if not os.path.isabs(p):
                base = os.readlink(f"/proc/self/fd/{dir_fd}")
                return os.path.normpath(os.path.join(base, p))
        except (TypeError, OSError):
            return None
    return _path_of(x)


def _audit(event, args):
    ctx = CUR
    if ctx is None or not ctx.recording:
        return
    try:
        if event == "open":
            path, mode, flags = args[0], args[1], args[2]
            p = _path_of(path)
            if p is None:
                return
            if isinstance(flags, int) and flags & WRITE_FLAGS:
                ctx.writes.append((ctx.actor, "open-w", p))
            else:
                ctx.reads.append((ctx.actor, p))
        elif event in ("os.mkdir", "os.remove", "os.rmdir", "os.truncate", "os.chmod",
                       "os.utime", "os.chown", "shutil.rmtree", "os.chflags", "os.mkfifo",
                       "os.mknod", "os.setxattr", "os.removexattr"):
            dir_fd = args[-1] if event in _DIRFD_LAST and len(args) >= 2 else None
            p = _path_at(args[0], dir_fd)
            if p is not None:
                ctx.writes.append((ctx.actor, event, p))
        elif event in ("os.rename", "os.link", "os.symlink", "shutil.copyfile", "shutil.move",
                       "shutil.copytree", "shutil.copymode", "shutil.copystat"):
            a = _path_of(args[0])
            b = _path_of(args[1])
            if event in ("os.rename", "shutil.move") and a is not None:
                ctx.writes.append((ctx.actor, event + ":src", a))
            if b is not None:
                ctx.writes.append((ctx.actor, event + ":dst", b))
    except Exception:      # never let the monitor disturb the run
        pass


def install_audit():
    global _AUDIT_INSTALLED
    if not _AUDIT_INSTALLED:
        sys.addaudithook(_audit)
        _AUDIT_INSTALLED = True


# ============================================================================ fault layer

FAULT_KINDS = {
    "open": ["EACCES", "ENOSPC", "EMFILE", "CRASH"],
    "write": ["EIO", "ENOSPC", "TORN", "SHORT", "DEFER", "CRASH"],
    "close": ["EIO"],
    "mkdir": ["ENOSPC", "EACCES"],
}


FRESH_PROCESS_HOOK = None      # set by the runner: restores the package state of a fresh interpreter


class SimDeadlock(BaseException):
    """The real system would block for ever at this point (not an Exception: no handler of the tool is
    meant to turn it into something else)."""


class SimCrash(BaseException):
    """The process is killed at this point (not an Exception: ordinary handlers do not see it)."""
_ERRNO = {"EACCES": errno.EACCES, "ENOSPC": errno.ENOSPC, "EMFILE": errno.EMFILE,
          "EIO": errno.EIO, "TORN": errno.ENOSPC, "SHORT": errno.ENOSPC, "DEFER": errno.ENOSPC, "CRASH": 0}


def _site(ctx, kind, path):
    """Register passing a fault site; returns the fault kind to inject here or None."""
    idx = ctx.site_counter
    ctx.site_counter += 1
    rp = ctx.rel(path)
    ctx.sites.append((kind, rp, ctx.actor))
    ap = os.path.abspath(os.fspath(path)) if path is not None else None
    fk = ctx.fault_plan.get(idx)
    if fk is None and ctx.fault_sticky and ctx.faults_fired:
        if ctx.sticky_all or (ap in ctx.sticky_paths):
            # sticky: every later write-effect on the failed path (or the whole disk) fails
            fk = "ENOSPC" if ctx.sticky_all else "EIO"
            if kind == "close":
                return None
            ctx.stats["fault.sticky_repeat"] += 1
            ctx.ev("fault-sticky", idx, kind, rp)
            return fk
    if fk is not None:
        ctx.faults_fired.append((idx, kind, fk, rp, ctx.actor))
        ctx.stats[f"fault.{kind}.{fk}"] += 1
        ctx.ev("fault", idx, kind, fk, rp, ctx.actor)
        if ctx.fault_sticky:
            if fk in ("ENOSPC", "TORN", "SHORT", "DEFER"):
                ctx.sticky_all = True
            elif ap:
                ctx.sticky_paths.add(ap)
    return fk


def _raise(fk, path):
    if fk == "CRASH":
        raise SimCrash(f"killed at {path}")
    raise OSError(_ERRNO[fk], os.strerror(_ERRNO[fk]) + " (injected)", os.fspath(path) if path is not None else None)


class WriteProxy:
    """Write-mode file object with fault points; delegates to a real file so bytes that
    are written really are on the scratch disk."""

    def __init__(self, real, path, ctx):
        self._f = real
        self._path = path
        self._ctx = ctx
        self._closed_fault = False
        self._pending = False

    # -- fault points
    def _raise_pending(self):
        """A write the buffer had accepted could not reach the disk: the error belongs to the flush/close
        that tries to write it out (and to nobody when the file object is merely dropped)."""
        if self._pending:
            self._pending = False
            _raise("ENOSPC", self._path)

    def flush(self):
        self._raise_pending()
        return self._f.flush()

    def write(self, data):
        ctx = self._ctx
        if self._pending:
            return len(data)            # still only buffered; nothing reaches the disk any more
        if ctx is CUR and ctx.inject:
            fk = _site(ctx, "write", self._path)
            if fk == "DEFER":
                # buffered file objects accept the data and fail later, at the flush or close that writes the
                # buffer out - and silently if that happens in the finaliser of an object nobody closed.
                # An unbuffered file has no "later": the error is raised here.
                if isinstance(self._f, io.RawIOBase):
                    _raise("ENOSPC", self._path)
                self._pending = True
                ctx.stats["fault.deferred_to_close"] += 1
                return len(data)
            if fk == "TORN":
                n = len(data) // 2
                mv = memoryview(data)[:n] if not isinstance(data, str) else data[:n]
                self._f.write(mv)
                self._f.flush()
                _raise(fk, self._path)
            elif fk == "SHORT":
                # write(2) accepted only part of the buffer (the disk filled up inside it).  An unbuffered
                # file object reports that as a short count and it is the caller's business to notice; a
                # buffered writer retries the remainder itself and gets the error, which it raises.
                n = len(data) // 2
                self._f.write(memoryview(data)[:n] if not isinstance(data, str) else data[:n])
                self._f.flush()
                if isinstance(self._f, io.RawIOBase) and n > 0:
                    ctx.stats["fault.short_count_returned"] += 1
                    return n
                _raise(fk, self._path)
            elif fk is not None:
                _raise(fk, self._path)
        return self._f.write(data)

    def writelines(self, lines):
        for l in lines:
            self.write(l)

    def close(self):
        ctx = self._ctx
        if self._f.closed:
            return
        self._f.close()
        self._raise_pending()
        if ctx is CUR and ctx.inject:
            fk = _site(ctx, "close", self._path)
            if fk is not None:
                _raise(fk, self._path)

    def __enter__(self):
        return self

    def __exit__(self, et, ev, tb):
        if et is not None:
            # an exception is already propagating: close quietly like a with-block would
            try:
                self._f.close()
            except Exception:
                pass
            return False
        self.close()
        return False

    def __iter__(self):
        return iter(self._f)

    def __next__(self):
        return next(self._f)

    def __getattr__(self, name):
        return getattr(self._f, name)

    def __del__(self):
        try:
            self._f.close()
        except Exception:
            pass


class FaultyRaw(io.FileIO):
    """Read-mode raw file that becomes unreadable `limit` bytes into the file (a medium error, a stale
    network file handle): bytes before the limit are delivered (short reads), a read that needs the byte at
    the limit gets EIO.  The fault *fires* only when a consumer really asks for bytes it cannot get; read-ahead
    of a buffered reader is served short without firing."""

    def __init__(self, path, limit, ctx, kind="EIO-MID"):
        super().__init__(path, "rb")
        self._limit = limit
        self._ctx = ctx
        self._kind = kind
        self._path = os.fspath(path)

    def fire(self):
        ctx = self._ctx
        ap = _path_of(self._path)
        ctx.faults_fired.append((-1, "read", self._kind, ctx.rel(ap), ctx.actor))
        ctx.stats[f"fault.read.{self._kind}"] += 1
        ctx.ev("fault", "read", self._kind, ctx.rel(ap), "at", self._limit, ctx.actor)
        raise OSError(errno.EIO, os.strerror(errno.EIO) + " (injected)", self._path)

    def readable_span(self, pos, nbytes):
        """How many of the `nbytes` bytes at `pos` can be read (for seams that bypass this object)."""
        return max(0, min(nbytes, self._limit - pos))

    def readinto(self, b):
        pos = self.tell()
        if pos >= self._limit:
            self.fire()
        n = min(len(b), self._limit - pos)
        return super().readinto(memoryview(b)[:n])

    def read(self, size=-1):
        pos = self.tell()
        if pos >= self._limit:
            self.fire()
        if size is None or size < 0:
            return self.readall()
        return super().read(min(size, self._limit - pos))

    def readall(self):
        # read-until-EOF has to cross the bad region
        self.fire()


def _faulty_open(file, mode, ctx, spec, k):
    kind, where = spec
    size = os.path.getsize(file)
    if size < 2:
        return None
    if where == "first-byte":
        limit = 0
    elif where == "last-byte":
        limit = size - 1
    elif where == "middle":
        limit = size // 2
    elif where.startswith("fab-header"):
        # at (or 5 bytes into) the header line of the k-th later FAB of a binary file: the read that fails is
        # the one looking for the next box, which sequential readers also use to find the end of the file
        _, nth, delta = where.split(":")
        with _REAL_OPEN(file, "rb") as fh:
            blob = fh.read()
        starts = [mt.start() for mt in re.finditer(rb"FAB \(\(", blob)][1:]
        if starts:
            limit = min(starts[int(nth) % len(starts)] + int(delta), size - 1)
        else:
            limit = size // 2
    else:                           # just after the first line (the header line of the first FAB)
        with _REAL_OPEN(file, "rb") as fh:
            limit = min(len(fh.readline()), size - 1)
    raw = FaultyRaw(file, limit, ctx, kind)
    if "b" in mode and k.get("buffering", -1) == 0:
        return raw
    buf = io.BufferedReader(raw)
    if "b" in mode:
        return buf
    return io.TextIOWrapper(buf, encoding=k.get("encoding"), errors=k.get("errors"), newline=k.get("newline"))


def _is_write_mode(mode):
    return any(c in mode for c in "wax+")


def _sim_open(real_open):
    def sim_open(file, mode="r", *a, **k):
        ctx = CUR
        if ctx is None or not ctx.inject or isinstance(file, int):
            return real_open(file, mode, *a, **k)
        if not isinstance(mode, str):
            return real_open(file, mode, *a, **k)
        if _is_write_mode(mode):
            fk = _site(ctx, "open", file)
            if fk is not None:
                _raise(fk, file)
            real = real_open(file, mode, *a, **k)
            return WriteProxy(real, file, ctx)
        # read side: only "unreadable input" faults, decided by path
        if ctx.read_fault_paths:
            ap = _path_of(file)
            if ap in ctx.read_fault_paths and isinstance(ctx.read_fault_paths[ap], tuple):
                f = _faulty_open(file, mode, ctx, ctx.read_fault_paths[ap], k)
                if f is not None:
                    ctx.stats["fault.read.armed"] += 1
                    return f
            elif ap in ctx.read_fault_paths:
                fk = ctx.read_fault_paths[ap]
                if fk.endswith("-ONCE"):
                    # a transient error: this open fails, the next attempt on the same file succeeds
                    fk = fk[:-5]
                    del ctx.read_fault_paths[ap]
                ctx.faults_fired.append((-1, "read-open", fk, ctx.rel(ap), ctx.actor))
                ctx.stats[f"fault.read-open.{fk}"] += 1
                ctx.ev("fault", "read-open", fk, ctx.rel(ap), ctx.actor)
                _raise(fk, file)
        return real_open(file, mode, *a, **k)
    return sim_open


def _sim_mkdir(path, mode=0o777, *a, **k):
    ctx = CUR
    if ctx is not None and ctx.inject:
        fk = _site(ctx, "mkdir", path)
        if fk is not None:
            _raise(fk, path)
    return _REAL_MKDIR(path, mode, *a, **k)


def _sim_listdir(path="."):
    ctx = CUR
    out = _REAL_LISTDIR(path)
    if ctx is not None and ctx.recording and len(out) > 1:
        # seeded permutation: directory order is unspecified on real file systems
        out = sorted(out)
        k = ctx.listdir_rot % len(out) if hasattr(ctx, "listdir_rot") else 0
        out = out[k:] + out[:k]
        if getattr(ctx, "listdir_rev", False):
            out.reverse()
    return out


_REAL_CPU_COUNT = os.cpu_count


def _sim_cpu_count():
    """os.cpu_count() / multiprocessing.cpu_count() as seen by the package under test: the size of the
    simulated machine, drawn once per execution (everybody else gets the real answer)."""
    ctx = CUR
    if ctx is None or not ctx.recording:
        return _REAL_CPU_COUNT()
    try:
        caller = sys._getframe(1).f_globals.get("__name__", "")
    except ValueError:
        caller = ""
    if not (caller == "amr_kitchen" or caller.startswith("amr_kitchen.")):
        return _REAL_CPU_COUNT()
    if ctx._ncpu is None:
        src = ctx.pool_src if ctx.pool_src is not None else ctx.src
        ctx._ncpu = [1, 2, 3, 4, 7, 16][src.draw("machine.ncpu", 0, 5)]
        ctx.ev("ncpu", ctx._ncpu)
        ctx.probe("cpu_count_asked")
    return ctx._ncpu


def _sim_time():
    """Simulated wall clock: a fixed epoch plus one microsecond per reading, so that elapsed times are
    small, positive and reproducible (archive member timestamps, which have 2 s resolution, never move)."""
    ctx = CUR
    if ctx is None:
        return FROZEN_TIME
    ctx.clock_ticks += 1
    return FROZEN_TIME + ctx.clock_ticks * 1e-6


def age_tree(ctx, path):
    """Simulated time passes between two generations of a directory tree: every entry under `path` gets a
    modification time 10 s later than anything aged before in this case (the real file system clock is
    too coarse to tell apart two trees written within the same tick, which no real history would be)."""
    ctx.mtime_clock += 10.0
    t = FROZEN_TIME + ctx.mtime_clock
    for dp, dn, fn in os.walk(path):
        for n in fn:
            try:
                os.utime(os.path.join(dp, n), (t, t))
            except OSError:
                pass
        try:
            os.utime(dp, (t, t))
        except OSError:
            pass


def install_seams():
    """Interpose open/mkdir/listdir/clock once per process (they forward to the real thing
    whenever no simulated operation is active)."""
    install_audit()
    if getattr(builtins.open, "_amrk_sim", False):
        return
    so = _sim_open(_REAL_OPEN)
    so._amrk_sim = True
    builtins.open = so
    io.open = so
    os.mkdir = _sim_mkdir
    os.listdir = _sim_listdir
    _time.time = _sim_time
    import multiprocessing
    os.cpu_count = _sim_cpu_count
    multiprocessing.cpu_count = _sim_cpu_count


class tool_env:
    """Context manager around one simulated tool operation: audit recording on, fault
    injection on (if a plan is present), cwd set, argv set, stdout captured."""

    def __init__(self, ctx, cwd=None, argv=None, capture=True):
        self.ctx = ctx
        self.cwd = cwd
        self.argv = argv
        self.capture = capture

    def __enter__(self):
        ctx = self.ctx
        self._old_cwd = os.getcwd()
        if self.cwd is not None:
            os.chdir(self.cwd)
        self._old_argv = sys.argv
        if self.argv is not None:
            sys.argv = list(self.argv)
        self._old_out = sys.stdout
        self._old_err = sys.stderr
        if self.capture:
            self.out = io.StringIO()
            sys.stdout = self.out
            sys.stderr = io.StringIO()
        ctx.recording = True
        ctx.inject = True
        return self

    def __exit__(self, et, ev, tb):
        ctx = self.ctx
        ctx.recording = False
        ctx.inject = False
        sys.stdout = self._old_out
        sys.stderr = self._old_err
        sys.argv = self._old_argv
        os.chdir(self._old_cwd)
        return False


class Outcome:
    def __init__(self, ok, value=None, exc=None, exit_code=None, out=""):
        self.ok = ok
        self.value = value
        self.exc = exc
        self.exit_code = exit_code
        self.out = out

    def failed_visibly(self):
        """The caller was told: exception, or SystemExit with a non-zero/ non-None code."""
        if self.exc is not None:
            if isinstance(self.exc, SystemExit):
                c = self.exc.code
                return not (c is None or c == 0)
            return True
        return False

    def exc_sig(self):
        if self.exc is None:
            return None
        import traceback
        frame = None
        for fs in traceback.extract_tb(self.exc.__traceback__):
            if "amr_kitchen" in fs.filename:
                frame = f"{os.path.basename(fs.filename)}:{fs.name}"
        return {"exc": type(self.exc).__name__, "frame": frame}


def run_tool(ctx, fn, cwd=None, argv=None, drain=True, label=None):
    """Run one tool operation under the seams and return an Outcome (never raises
    exceptions of the tool; HarnessError passes through)."""
    ctx.op_seq += 1
    if label:
        label = ctx.clean(label)
        ctx.ev("op", ctx.op_seq, label)
        ctx.describe["operations"].append(label)
    if cwd is None:
        cwd = getattr(ctx, "default_cwd", None)
    env = tool_env(ctx, cwd=cwd, argv=argv)
    out = Outcome(True)
    with env:
        try:
            out.value = fn()
            if drain:
                ctx.drain_pools()
        except (HarnessError,) as e:
            raise
        except KeyboardInterrupt:
            raise
        except BaseException as e:     # includes SystemExit from CLI entry points
            from .choice import ReplayMismatch
            if isinstance(e, ReplayMismatch):
                raise
            out.ok = False
            out.exc = e
            if isinstance(e, SystemExit):
                out.exit_code = e.code
            if drain:
                try:
                    ctx.drain_pools()
                except HarnessError:
                    raise
                except BaseException:
                    pass
    out.out = env.out.getvalue() if env.capture else ""
    ctx.ev("op-end", ctx.op_seq, "ok" if out.ok else f"exc:{type(out.exc).__name__}")
    return out
