"""SimPool: a process pool whose every scheduling decision comes from the choice source.

Replaces multiprocessing.Pool, pathos' ProcessingPool (amr_kitchen.chef.chef.Pool) and
amr_kitchen.chk2plt.chk2plt.Pool.  Semantics mirrored from CPython 3.12
multiprocessing/pool.py (chunking, ordered/unordered delivery, error propagation,
terminate) -- see DESIGN.md 3.3.

inline mode: units run in the simulator's thread.
fork mode:   units run in real forked worker processes that are parked on a pipe and
             released one unit at a time, so who runs is never left to the OS while
             worker memory (a snapshot of the parent at pool creation, persisting across
             units) is real.
"""
import errno
import math
import os
import stat
import pickle
import sys
import traceback

from . import core
from .core import HarnessError

try:
    import dill
except Exception:           # pragma: no cover
    dill = None


class _Failure:
    def __init__(self, exc):
        self.exc = exc


def _feasible_order(n, W, pref):
    """Completion order of n FIFO-dispatched units on W workers that follows the
    preference list `pref` (a permutation) as closely as the window allows: the k-th unit
    to complete must be among the first k+W dispatched."""
    done = [False] * n
    order = []
    for k in range(n):
        lim = min(n, k + W)
        for u in pref:
            if not done[u] and u < lim:
                done[u] = True
                order.append(u)
                break
    return order


class _Call:
    """One map/imap/imap_unordered call."""

    def __init__(self, pool, kind, func, iterable, chunksize):
        ctx = pool.ctx
        self.pool = pool
        self.kind = kind
        self.func = func
        self.id = pool.ncalls
        pool.ncalls += 1
        self.tag = f"p{pool.id}.c{self.id}"
        self.site = _callsite()
        self.units = []          # pulled units: list of list-of-args (a chunk)
        self.it = None
        self.exhausted = False
        self.done = {}           # unit idx -> list of results or _Failure
        self.completion = []     # unit idxs in completion order
        self.next_deliver = 0    # ordered delivery cursor (unit index)
        self.undelivered = []    # completed, not yet delivered (unordered)
        self.item_buf = []       # items of the chunk being delivered
        self.pref = None
        self.finished = False
        self.worker_of = {}
        self.writes = {}         # unit -> set of written paths
        self.reads = {}
        self.parent_w0 = len(ctx.writes)
        self.chunksize = chunksize
        self.style = pool.style
        self.lazy = False
        self.dropped = False
        self.late = 0

    # ---------------------------------------------------------------- pulling
    def pull(self, k=None):
        """Pull up to k more chunks from the iterable (None = all)."""
        ctx = self.pool.ctx
        n = 0
        while not self.exhausted and (k is None or n < k):
            chunk = []
            try:
                for _ in range(self.chunksize):
                    chunk.append(next(self.it))
            except StopIteration:
                self.exhausted = True
            except BaseException as e:          # generator argument raised
                self.exhausted = True
                if chunk:
                    self.units.append(chunk)
                self.units.append(_Failure(e))
                ctx.probe("iterable_raised")
                return
            if chunk:
                self.units.append(chunk)
                n += 1
        return n

    # ---------------------------------------------------------------- running
    def runnable(self):
        lim = len(self.completion) + self.pool.W
        return [u for u in range(min(len(self.units), lim)) if u not in self.done]

    def run_unit(self, u):
        pool = self.pool
        ctx = pool.ctx
        unit = self.units[u]
        w = pool._assign_worker(self, u)
        self.worker_of[u] = w
        actor = f"{self.tag}.u{u}"
        ctx.ev("run", actor, f"w{w}")
        if isinstance(unit, _Failure):
            self.done[u] = unit
        else:
            prev_actor = ctx.actor
            ctx.actor = actor
            w0, r0 = len(ctx.writes), len(ctx.reads)
            offs0 = _fd_offsets(pool.inherited_fds) if pool.inherited_fds else None
            try:
                res = pool._execute(self.func, unit, w)
            finally:
                ctx.actor = prev_actor
            if offs0:
                offs1 = _fd_offsets(pool.inherited_fds)
                moved = {fd for fd, o in offs0.items() if o is not None and offs1.get(fd) is not None and offs1[fd] != o}
                if moved:
                    self.__dict__.setdefault("fd_moved", {})[u] = moved
            # (creating a directory is idempotent - several tasks may makedirs(exist_ok=True) the same
            # level directory - and metadata calls do not change content: neither counts for I3)
            self.writes[u] = {p for (a, k, p) in ctx.writes[w0:] if a == actor and
                              k not in ("os.mkdir", "os.utime", "os.chmod", "os.chown")}
            self.reads[u] = {p for (a, p) in ctx.reads[r0:] if a == actor}
            self.done[u] = res
        self.completion.append(u)
        self.undelivered.append(u)
        ctx.stats["units_run"] += 1

    def pick(self):
        """Choose which runnable unit completes next according to the style."""
        ctx = self.pool.ctx
        cand = self.runnable()
        if not cand:
            return None
        if self.pref is not None:
            for u in self.pref:
                if u in cand:
                    return u
            return cand[0]
        st = self.style
        if st in (0, 1) or len(cand) == 1:
            return cand[0]
        if st == 2:
            return cand[-1]
        i = self.pool.src.draw(f"{self.tag}.next", 0, len(cand) - 1)
        return cand[i]

    def step(self):
        u = self.pick()
        if u is None:
            return False
        self.run_unit(u)
        return True

    def run_all(self):
        while True:
            if not self.step():
                if not self.exhausted:
                    self.pull(None)
                    if self.runnable():
                        continue
                break
        self._finish()

    def _finish(self):
        if self.finished:
            return
        if self.exhausted and len(self.done) == len(self.units):
            self.finished = True
            self.pool._call_finished(self)

    # ---------------------------------------------------------------- preference (enumerable)
    def setup_pref(self):
        """For small calls draw the whole completion preference as ONE permutation index
        (so all orders can be enumerated by forcing that draw)."""
        ctx = self.pool.ctx
        n = len(self.units)
        if self.style == 4 and 2 <= n <= 6:
            self.pref = self.pool.src.perm(f"{self.tag}.perm", n)
        elif self.style == 4:
            self.style = 3


def _callsite():
    """amr_kitchen frame that called the pool (for schedule signatures)."""
    f = sys._getframe(3)
    while f is not None:
        fn = f.f_code.co_filename
        if "amr_kitchen" in fn:
            return f"{os.path.basename(fn)}:{f.f_code.co_name}"
        f = f.f_back
    return "harness"


class _IMapIter:
    def __init__(self, call, ordered):
        self.call = call
        self.ordered = ordered

    def __iter__(self):
        return self

    def __next__(self):
        c = self.call
        pool = c.pool
        ctx = pool.ctx
        if pool.terminated and not c.finished:
            # a terminated pool never delivers what it has not delivered yet: the real
            # iterator would block forever; surface it as a harness-visible hang
            raise HarnessError("next() on an imap iterator of a terminated pool (would hang)")
        while True:
            if c.item_buf:
                ok, v = c.item_buf.pop(0)
                if ok:
                    return v
                ctx.probe("exception_delivered")
                if any(u not in c.done for u in range(len(c.units))) or not c.exhausted:
                    ctx.probe("exception_while_outstanding")
                raise v
            u = self._next_unit()
            if u is None:
                if not c.units and c.exhausted and not getattr(c, "_empty_checked", False):
                    c._empty_checked = True
                    self._empty_imap_hazard()
                raise StopIteration
            res = c.done[u]
            if isinstance(res, _Failure):
                c.item_buf = [(False, res.exc)]
            else:
                c.item_buf = list(res)
            self._extra()

    next = __next__

    def _empty_imap_hazard(self):
        """CPython: imap/imap_unordered over ZERO tasks, on a pool that nothing but the returned iterator
        keeps alive, never returns - the task-handler thread drops the last reference to the pool while
        holding the iterator's condition, the pool's finalizer runs right there and the consumer blocks
        for ever (reproduced with python 3.12: `def f(): p = Pool(); return p.imap(g, [])`, `list(f())`).
        The pool counts as orphaned when its reference count is what the harness alone accounts for."""
        pool = self.call.pool
        ctx = pool.ctx
        # strong references the harness itself holds: the registry, every call of the pool, the locals of
        # __next__ and of this function, the argument of getrefcount - anything beyond that is an owner in
        # the tool (a local variable, an attribute, a `with` block), and an owned pool is not finalised
        harness_refs = 1 + len(pool.calls) + 2 + 1
        holders = frames = sys.getrefcount(pool) > harness_refs
        ctx.probe("empty_imap")
        if not holders and not frames:
            ctx.probe("empty_imap_orphaned_pool")
            raise core.SimDeadlock("imap over an empty task list on a pool that only the returned iterator keeps "
                                   "alive: with multiprocessing.Pool the consumer blocks for ever")

    def _next_unit(self):
        c = self.call
        if self.ordered:

            u = c.next_deliver
            while u not in c.done:
                if u >= len(c.units):
                    if c.exhausted:
                        return None
                    c.pull(1)
                    c.lazy = True
                    if u >= len(c.units):
                        return None
                    continue
                if not c.step():
                    raise HarnessError("imap: needed unit not runnable")
            c.next_deliver += 1
            if u in c.undelivered:
                c.undelivered.remove(u)
            c._finish()
            return u
        else:
            while not c.undelivered:
                if not c.step():
                    if c.exhausted:
                        c._finish()
                        return None
                    c.pull(1)
                    c.lazy = True
                    if not c.runnable():
                        c._finish()
                        return None
            u = c.undelivered.pop(0)
            c._finish()
            return u

    def _extra(self):
        """After a delivery: how many further units complete before the parent goes on."""
        c = self.call
        ctx = c.pool.ctx
        if c.style in (0,):
            return
        if c.style in (1, 2):
            c.run_all()
            return
        if c.pref is not None:
            mode = c.pool.eager
            if mode:
                c.run_all()
            return
        # random style
        if not c.exhausted:
            c.pull(c.pool.src.draw(f"{c.tag}.pull", 0, 2))
        k = c.pool.src.draw(f"{c.tag}.extra", 0, 2)
        for _ in range(k):
            if not c.step():
                break
        c._finish()


class SimPool:
    """Drop-in for multiprocessing.Pool (the subset the repository uses)."""

    _dill = False

    def __init__(self, processes=None, *args, **kwargs):
        ctx = core.CUR
        if ctx is None:
            raise HarnessError("SimPool created outside a simulated case")
        if processes is not None and int(processes) < 1:
            raise ValueError("Number of processes must be at least 1")      # as multiprocessing.Pool does
        k = getattr(ctx, "pool_fail_at", None)
        if k is not None and ctx.inject:
            # fault: the system refuses to start the worker processes (fork: EAGAIN) for the k-th pool from now
            if k <= 0:
                ctx.pool_fail_at = None
                ctx.faults_fired.append((-1, "pool-start", "EAGAIN", "", ctx.actor))
                ctx.stats["fault.pool-start.EAGAIN"] += 1
                ctx.ev("fault", "pool-start", "EAGAIN")
                raise BlockingIOError(errno.EAGAIN, "Resource temporarily unavailable (injected)")
            ctx.pool_fail_at = k - 1
        self.ctx = ctx
        self.id = ctx.pool_seq
        ctx.pool_seq += 1
        src = ctx.pool_src if ctx.pool_src is not None else ctx.src
        self.src = src
        wmax = 3 if ctx.fork_mode else 16
        if processes is None:
            self.W = src.weighted(f"pool{self.id}.W", [(1, 2), (2, 3), (3, 2), (4, 1), (16, 1), (7, 1)][: (3 if ctx.fork_mode else 6)])
        else:
            self.W = max(1, int(processes))
        self.W = min(self.W, wmax)
        self.style = src.draw(f"pool{self.id}.style", 0, 4)
        self.eager = src.draw(f"pool{self.id}.eager", 0, 1)
        self.rot = src.draw(f"pool{self.id}.rot", 0, self.W - 1) if self.W > 1 else 0
        self.ncalls = 0
        self.calls = []
        self.terminated = False
        self.closed = False
        self.workers = None
        self.worker_free = list(range(self.W))
        self._slot = {}
        # open file descriptions the workers inherit: regular files of the case that are open right now
        self.inherited_fds = _open_case_files(ctx) if type(self) is SimPool else {}
        ctx.pools.append(self)
        ctx.ev("pool", self.id, "W", self.W, "style", self.style, "eager", self.eager)
        ctx.stats[f"pool.W={self.W}"] += 1
        if ctx.fork_mode:
            self._start_workers()

    def _start_workers(self):
        from .forkpool import ForkWorkers
        self.workers = ForkWorkers(self, min(self.W, 3))

    # ------------------------------------------------------------------ worker assignment
    def _assign_worker(self, call, u):
        """Deterministic FIFO model: workers take units in dispatch order as they become
        idle.  With atomic units this reduces to: the unit completing k-th frees a worker
        which takes the next unit not yet started."""
        slot = call.__dict__.setdefault("_slots", {})
        if not slot:
            call._next_start = 0
            call._idle = [(w + self.rot) % self.W for w in range(self.W)]
        # start units until u is started
        while u not in slot:
            if not call._idle:
                # should not happen: window guarantees an idle worker
                call._idle.append(0)
            w = call._idle.pop(0)
            slot[call._next_start] = w
            call._next_start += 1
        w = slot[u]
        call._idle.append(w)
        return w

    # ------------------------------------------------------------------ execution
    def _dumps(self, obj):
        if self._dill:
            return dill.dumps(obj, recurse=False)
        return pickle.dumps(obj, protocol=pickle.HIGHEST_PROTOCOL)

    def _loads(self, b):
        if self._dill:
            return dill.loads(b)
        return pickle.loads(b)

    def _execute(self, func, chunk, w):
        """Run one dispatch unit (a chunk of arguments); returns list of (ok, value) or
        a _Failure for a whole failed chunk (map semantics) -- the caller decides."""
        ctx = self.ctx
        try:
            payload = self._dumps((func, chunk))
        except BaseException as e:
            ctx.probe("unpicklable_task")
            return _Failure(e)
        if self.workers is not None:
            return self.workers.execute(w, payload, self)
        return _run_payload(self, payload)

    # ------------------------------------------------------------------ API
    def _check(self):
        if self.terminated or self.closed:
            raise ValueError("Pool not running")

    def _new_call(self, kind, func, iterable, chunksize):
        c = _Call(self, kind, func, iterable, chunksize)
        self.calls.append(c)
        return c

    def map(self, func, iterable, chunksize=None):
        self._check()
        ctx = self.ctx
        if not hasattr(iterable, "__len__"):
            iterable = list(iterable)
        n = len(iterable)
        if chunksize is None:
            chunksize, extra = divmod(n, self.W * 4)
            if extra:
                chunksize += 1
        if n == 0:
            chunksize = 0
            return []
        c = self._new_call("map", func, iterable, chunksize)
        c.it = iter(iterable)
        c.pull(None)
        c.setup_pref()
        ctx.ev("map", c.tag, c.site, "n", n, "chunk", chunksize, "units", len(c.units))
        if chunksize > 1:
            ctx.probe("chunk>1")
        c.run_all()
        self._record_sig(c, n)
        # error semantics of MapResult: the failing chunk that completed first wins
        for u in c.completion:
            r = c.done[u]
            if isinstance(r, _Failure):
                raise r.exc
            for ok, v in r:
                if not ok:
                    raise v
        out = []
        for u in range(len(c.units)):
            out.extend(v for ok, v in c.done[u])
        return out

    def _imap(self, func, iterable, chunksize, ordered):
        self._check()
        ctx = self.ctx
        # chunksize > 1: a unit is a chunk (one task applying func to each of its items); its items are
        # delivered one by one, and a failing item fails the whole chunk at the position of its first item
        c = self._new_call("imap" if ordered else "imap_unordered", func, iterable, max(1, int(chunksize)))
        c.it = iter(iterable)
        ctx.ev(c.kind, c.tag, c.site)
        st = c.style
        if st in (1, 2, 4):
            c.pull(None)
            c.setup_pref()
            if st in (1, 2) or (c.pref is not None and self.eager):
                c.run_all()
        elif st == 3:
            c.pull(self.src.draw(f"{c.tag}.pull0", 0, 3))
            for _ in range(self.src.draw(f"{c.tag}.run0", 0, 2)):
                if not c.step():
                    break
        return _IMapIter(c, ordered)

    def imap(self, func, iterable, chunksize=1):
        return self._imap(func, iterable, chunksize, True)

    def imap_unordered(self, func, iterable, chunksize=1):
        return self._imap(func, iterable, chunksize, False)

    def apply(self, func, args=(), kwds={}):
        return self.map(_Apply(func, kwds), [args])[0]

    def starmap(self, func, iterable, chunksize=None):
        return self.map(_StarApply(func), iterable, chunksize)

    # ---- asynchronous forms: the call is queued; its units run at drawn moments (at submission,
    # when the parent waits on the result, at a later pool interaction, or in the background drain)
    def _submit_async(self, func, iterable, chunksize, single, callback, error_callback):
        self._check()
        ctx = self.ctx
        if not hasattr(iterable, "__len__"):
            iterable = list(iterable)
        n = len(iterable)
        if chunksize is None:
            chunksize, extra = divmod(n, self.W * 4)
            if extra:
                chunksize += 1
        chunksize = max(chunksize, 1)
        c = self._new_call("map", func, iterable, chunksize)
        c.it = iter(iterable)
        c.pull(None)
        c.setup_pref()
        c.is_async = True
        ctx.ev("map_async" if not single else "apply_async", c.tag, c.site, "n", n)
        ctx.probe("async_calls")
        res = _AsyncResult(self, c, n, single, callback, error_callback)
        st = c.style
        if st in (1, 2) or (c.pref is not None and self.eager):
            res._complete()
        elif st == 3:
            for _ in range(self.src.draw(f"{c.tag}.run0", 0, 2)):
                if not c.step():
                    break
        return res

    def map_async(self, func, iterable, chunksize=None, callback=None, error_callback=None):
        return self._submit_async(func, iterable, chunksize, False, callback, error_callback)

    def starmap_async(self, func, iterable, chunksize=None, callback=None, error_callback=None):
        return self._submit_async(_StarApply(func), iterable, chunksize, False, callback, error_callback)

    def apply_async(self, func, args=(), kwds={}, callback=None, error_callback=None):
        return self._submit_async(_Apply(func, kwds), [args], 1, True, callback, error_callback)

    def close(self):
        self.closed = True

    def join(self):
        self._drain()

    def terminate(self):
        if self.terminated:
            return
        ctx = self.ctx
        left = 0
        for c in self.calls:
            if not c.finished:
                left += (len(c.units) - len(c.done)) + (0 if c.exhausted else 1)
                c.dropped = True
        if left:
            ctx.probe("terminate_dropped_units", left)
        ctx.ev("terminate", self.id, "dropped", left)
        self.terminated = True
        self._shutdown()

    def __enter__(self):
        return self

    def __exit__(self, *a):
        self.terminate()

    def clear(self):
        pass

    # ------------------------------------------------------------------ housekeeping
    def _drain(self):
        if self.terminated:
            return
        for c in self.calls:
            if not c.finished and not c.dropped:
                before = len(c.done)
                if not c.exhausted:
                    c.pull(None)
                c.run_all()
                late = len(c.done) - before
                if late:
                    self.ctx.probe("leftover_units_drained", late)
                    c.late += late
                c._finish()

    def _call_finished(self, c):
        ctx = self.ctx
        cb = getattr(c, "on_finish", None)
        if cb is not None:
            cb()
        n = sum(len(u) if not isinstance(u, _Failure) else 1 for u in c.units)
        if c.kind != "map":
            self._record_sig(c, n)
        _check_isolation(ctx, c)
        _check_shared_offsets(ctx, c)

    def _record_sig(self, c, n):
        ctx = self.ctx
        order = tuple(c.completion)
        sig = (c.site, c.kind, n, self.W, c.chunksize, order, c.lazy,
               tuple(c.worker_of.get(u, -1) for u in range(len(c.units))))
        ctx.sigs.add(sig)
        if len(c.units) >= 2:
            ctx.probe("calls>=2units")
            if list(order) != sorted(order):
                ctx.probe("nonFIFO_completion")
                ctx.nontrivial_sched = True
            if self.W > 1:
                ctx.nontrivial_sched = True
        if self.W == 1:
            ctx.probe("W=1")
        if self.W > max(1, len(c.units)):
            ctx.probe("W>n")
        if c.lazy:
            ctx.probe("lazy_iterable_consumption")
        if len(ctx.describe["schedules"]) < 40:
            ctx.describe["schedules"].append(
                {"call": c.site, "kind": c.kind, "n": n, "W": self.W, "chunk": c.chunksize,
                 "order": list(order)})

    def _shutdown(self):
        if self.workers is not None:
            self.workers.stop()
            self.workers = None


class _Apply:
    def __init__(self, f, kw):
        self.f = f
        self.kw = kw

    def __call__(self, args):
        return self.f(*args, **self.kw)


class _StarApply:
    def __init__(self, f):
        self.f = f

    def __call__(self, args):
        return self.f(*args)


class _AsyncResult:
    """multiprocessing.pool.AsyncResult / MapResult: errors are only seen by a caller that get()s."""

    def __init__(self, pool, call, n, single, callback, error_callback):
        self.pool = pool
        self.call = call
        self.n = n
        self.single = single
        self.callback = callback
        self.error_callback = error_callback
        self._called_back = False
        call.on_finish = self._fire_callbacks

    def _outcome(self):
        c = self.call
        for u in c.completion:
            r = c.done[u]
            if isinstance(r, _Failure):
                return False, r.exc
            for ok, v in r:
                if not ok:
                    return False, v
        out = []
        for u in range(len(c.units)):
            out.extend(v for ok, v in c.done[u])
        return True, (out[0] if self.single else out)

    def _fire_callbacks(self):
        if self._called_back:
            return
        self._called_back = True
        ok, v = self._outcome()
        if ok and self.callback is not None:
            self.callback(v)
        if not ok and self.error_callback is not None:
            self.error_callback(v)

    def _complete(self):
        c = self.call
        if self.pool.terminated and not c.finished:
            raise HarnessError("waiting on an async result of a terminated pool (would hang)")
        if not c.finished:
            c.run_all()
        self._fire_callbacks()

    def ready(self):
        # an observation point: the workers went on meanwhile.  Before answering, a drawn number (0-2) of
        # outstanding units of this pool's asynchronous calls complete, in a drawn order - so that two
        # successive ready() scans of a set of results can see different states, as with a real pool
        pool = self.pool
        if not self.call.finished or any(not c.finished for c in pool.calls if getattr(c, "is_async", False)):
            n = pool.src.draw(f"pool{pool.id}.tick", 0, 2)
            for _ in range(n):
                pend = [c for c in pool.calls if getattr(c, "is_async", False) and not c.finished]
                if not pend or pool.terminated:
                    break
                c = pend[pool.src.draw(f"pool{pool.id}.tick.which", 0, len(pend) - 1)] if len(pend) > 1 else pend[0]
                if not c.step():
                    if not c.exhausted:
                        c.pull(None)
                        c.step()
                c._finish()
            pool.ctx.stats["async_ready_polls"] += 1
        return self.call.finished

    def successful(self):
        if not self.call.finished:
            raise ValueError("result is not ready")
        return self._outcome()[0]

    def wait(self, timeout=None):
        self._complete()

    def get(self, timeout=None):
        self._complete()
        ok, v = self._outcome()
        if ok:
            return v
        self.pool.ctx.probe("async_error_collected")
        raise v


def _run_payload(pool, payload):
    """Worker side of one unit (also used inside forked workers)."""
    try:
        func, chunk = pool._loads(payload)
    except BaseException as e:
        return _Failure(e)
    out = []
    is_map = True
    for a in chunk:
        try:
            r = func(a)
            try:
                r = pool._loads(pool._dumps(r))
            except BaseException as e:
                # result not picklable: multiprocessing wraps it in MaybeEncodingError
                r_exc = RuntimeError(f"Error sending result: {type(e).__name__}: {e}")
                out.append((False, r_exc))
                break
            out.append((True, r))
        except HarnessError:
            raise
        except BaseException as e:
            from .choice import ReplayMismatch
            if isinstance(e, ReplayMismatch):
                raise
            try:
                e2 = pickle.loads(pickle.dumps(e))
                e2.__traceback__ = e.__traceback__
                e = e2
            except BaseException:
                e = RuntimeError(f"unpicklable worker exception {type(e).__name__}: {e}")
            out.append((False, e))
            # mapstar aborts the rest of the chunk at the first failure
            break
    return out


def _open_case_files(ctx):
    """{fd: (dev, ino)} of the regular files under the case's scratch tree that are open in this process."""
    out = {}
    try:
        names = os.listdir("/proc/self/fd")
    except OSError:
        return out
    for n in names:
        try:
            fd = int(n)
            st = os.fstat(fd)
            if not stat.S_ISREG(st.st_mode):
                continue
            if not os.readlink(f"/proc/self/fd/{fd}").startswith(ctx.scratch):
                continue
            out[fd] = (st.st_dev, st.st_ino)
        except (OSError, ValueError):
            continue
    return out


def _fd_offsets(fds):
    out = {}
    for fd, ident in fds.items():
        try:
            st = os.fstat(fd)
            out[fd] = os.lseek(fd, 0, os.SEEK_CUR) if (st.st_dev, st.st_ino) == ident else None
        except OSError:
            out[fd] = None
    return out


def _check_shared_offsets(ctx, c):
    """Workers are forks of the parent: a file the parent had open when the pool was created is ONE open file
    description in all of them, with ONE offset.  Two units of a call that both move it (seek / read through
    it) can run on two workers at once whenever W >= 2, and then each reads from wherever the other left
    the offset.  Atomic-unit scheduling cannot show the resulting garbage, so the condition itself is
    reported (like I3): >= 2 units of one call moved the offset of the same inherited descriptor, W >= 2."""
    moved = c.__dict__.get("fd_moved")
    if not moved or c.pool.W < 2:
        return
    byfd = {}
    for u, fds in moved.items():
        for fd in fds:
            byfd.setdefault(fd, []).append(u)
    for fd, us in sorted(byfd.items()):
        if len(us) >= 2:
            try:
                path = ctx.rel(os.readlink(f"/proc/self/fd/{fd}"))
            except OSError:
                path = "?"
            ctx.race_hazards = getattr(ctx, "race_hazards", [])
            ctx.race_hazards.append({"call": c.site, "path": path, "units": sorted(us)[:4], "W": c.pool.W})
            ctx.ev("shared-offset", c.site, path, len(us))
            ctx.stats["probe.shared_offset_hazard"] += 1
            return


def _check_isolation(ctx, c):
    """Invariant I3: write sets of the units of one call are pairwise disjoint and
    disjoint from sibling read sets and from what the parent wrote meanwhile."""
    units = sorted(c.writes)
    allw = {}
    for u in units:
        for p in c.writes[u]:
            allw.setdefault(p, []).append(u)
    parent_w = {p for (a, k, p) in ctx.writes[c.parent_w0:] if a == "parent" and k == "open-w"}
    bad = None
    for p, us in allw.items():
        if len(us) > 1:
            bad = ("two units write one path", ctx.rel(p), us)
            break
        if p in parent_w:
            bad = ("parent and unit write one path", ctx.rel(p), us)
            break
    if bad is None:
        for u in units:
            for v, rs in c.reads.items():
                if v != u and c.writes[u] & rs:
                    bad = ("unit writes what a sibling reads", ctx.rel(next(iter(c.writes[u] & rs))), [u, v])
                    break
            if bad:
                break
    if bad is not None:
        ctx.i3_violations = getattr(ctx, "i3_violations", [])
        ctx.i3_violations.append({"call": c.site, "what": bad[0], "path": bad[1], "units": bad[2]})
        ctx.ev("I3", c.site, bad[0], bad[1])


class SimPathosPool(SimPool):
    """pathos.multiprocessing.ProcessingPool: dill serialisation, map/imap take *iterables,
    and the underlying workers are cached across instances (fork mode models that)."""
    _dill = True

    def __init__(self, *args, **kwargs):
        nodes = kwargs.get("nodes", args[0] if args else None)
        super().__init__(nodes)

    def _start_workers(self):
        # pathos keeps the underlying pool in a global cache: a later ProcessingPool()
        # is served by the workers forked for an earlier one, until clear()
        from .forkpool import pathos_workers
        self.workers = pathos_workers(self)
        self.W = self.workers.W

    def _shutdown(self):
        self.workers = None        # cached workers survive this instance

    def clear(self):
        from .forkpool import pathos_clear
        pathos_clear(self.ctx)
        self.workers = None

    def restart(self, force=False):
        self.clear()
        if self.ctx.fork_mode:
            self._start_workers()

    def map(self, f, *iterables, **kw):
        return super().map(_Star(f, len(iterables)), _zip(iterables))

    def imap(self, f, *iterables, **kw):
        return super().imap(_Star(f, len(iterables)), _zip(iterables))

    def uimap(self, f, *iterables, **kw):
        return super().imap_unordered(_Star(f, len(iterables)), _zip(iterables))


class _Star:
    def __init__(self, f, n):
        self.f = f
        self.n = n

    def __call__(self, args):
        return self.f(*args)


def _zip(iterables):
    if len(iterables) == 1:
        return ((a,) for a in iterables[0]) if not hasattr(iterables[0], "__len__") \
            else [(a,) for a in iterables[0]]
    return zip(*iterables)


def install_pools():
    """Rebind the three pool names the repository looks up at call time."""
    import multiprocessing
    import multiprocessing.pool
    real_factory = getattr(multiprocessing.Pool, "__func__", None)
    real_class = multiprocessing.pool.Pool
    multiprocessing.Pool = SimPool
    import importlib
    chef_mod = importlib.import_module("amr_kitchen.chef.chef")
    chef_mod.Pool = SimPathosPool
    # NB: the package attribute amr_kitchen.chk2plt.chk2plt is the class of the same name;
    # the module has to be taken from sys.modules
    importlib.import_module("amr_kitchen.chk2plt.chk2plt")
    c2p = sys.modules["amr_kitchen.chk2plt.chk2plt"]
    assert hasattr(c2p, "write_plt_bin_from_chk")
    c2p.Pool = SimPool
    # any other module-level name of the package that was bound to a real pool class at import time
    # (`from multiprocessing import Pool`, `from pathos.pools import ProcessPool as P`, ...)
    try:
        import pathos.multiprocessing as _pm
        import pathos.pools as _pp
        pathos_classes = {getattr(_pm, n, None) for n in ("ProcessingPool", "ProcessPool")} | \
                         {getattr(_pp, n, None) for n in ("ProcessPool",)}
        pathos_classes.discard(None)
    except Exception:
        pathos_classes = set()
    for mname, mod in list(sys.modules.items()):
        if mod is None or not (mname == "amr_kitchen" or mname.startswith("amr_kitchen.")):
            continue
        for k, v in list(vars(mod).items()):
            if v is real_class or (real_factory is not None and getattr(v, "__func__", None) is real_factory):
                setattr(mod, k, SimPool)
            elif isinstance(v, type) and v in pathos_classes:
                setattr(mod, k, SimPathosPool)
