"""Reference model of an AMReX plotfile, a seeded generator of well-formed ones, a
writer that materialises them on the (scratch) disk, and the pure operations the
tools are supposed to implement.  Imports nothing from amr_kitchen.
"""
import os
import numpy as np

FAB_PREFIX = "FAB ((8, (64 11 52 0 1 12 0 1023)),(8, (8 7 6 5 4 3 2 1)))"


def g17(x):
    return "%.17g" % float(x)


def fmt_idx(t):
    return "(" + ",".join(str(int(v)) for v in t) + ")"


def fab_header(lo, hi, ncomp):
    nd = len(lo)
    return (FAB_PREFIX + "(" + fmt_idx(lo) + " " + fmt_idx(hi) + " " +
            fmt_idx([0] * nd) + ") " + str(int(ncomp)) + "\n").encode("ascii")


class PlotModel:
    """In-memory contents of a plotfile (the oracle's notion of truth)."""

    def __init__(self):
        self.ndims = 3
        self.time = 0.0
        self.geo_low = []
        self.geo_high = []
        self.nlev = 1
        self.dx = []            # [lv] -> list of floats
        self.grid_sizes = []    # [lv] -> tuple of ints (domain cells)
        self.boxes = []         # [lv] -> list of (lo tuple, hi tuple) inclusive index ranges
        self.fields = []        # names
        self.data = []          # [lv][b] -> float64 array (nx,ny[,nz],nf)
        self.layout = []        # [lv] -> list of (file name, rank in file) per box
        self.steps = []         # step number per level
        # header cosmetics (all observed in real assets)
        self.extra_ratio = 0    # extra entries on the refinement-ratio line
        self.stale_file = False
        self.nanskip = False    # min/max tables skip NaN cells (what a running `<` comparison does)
        self.idx_shift = 0      # on disk every cell index is lowered by idx_shift * 2**level (an index space
                                # that does not start at 0; the model itself stays 0-based)
        self.stale_levels = 0   # stale level blocks after the last level (example_plt_2d)
        self.float_fmt = "g17"  # or "repr"
        self.version = "HyperCLaw-V1.1"
        self.phys = None        # optional [lv][b] -> [(lo, hi) per dim]: bounds as found on disk

    # ------------------------------------------------------------------ geometry
    def fmt(self, x):
        return g17(x) if self.float_fmt == "g17" else repr(float(x))

    def box_phys(self, lv, b):
        if self.phys is not None:
            return [tuple(p) for p in self.phys[lv][b]]
        lo, hi = self.boxes[lv][b]
        out = []
        for d in range(self.ndims):
            out.append((self.geo_low[d] + self.dx[lv][d] * lo[d],
                        self.geo_low[d] + self.dx[lv][d] * (hi[d] + 1)))
        return out

    def box_shape(self, lv, b):
        lo, hi = self.boxes[lv][b]
        return tuple(int(h - l + 1) for l, h in zip(lo, hi))

    def ncells(self):
        return sum(int(np.prod(self.box_shape(lv, b))) for lv in range(self.nlev)
                   for b in range(len(self.boxes[lv])))

    def summary(self):
        return {"ndims": self.ndims, "nlev": self.nlev, "fields": list(self.fields),
                "grid": [list(map(int, g)) for g in self.grid_sizes],
                "boxes": [len(b) for b in self.boxes],
                "files": [sorted({f for f, _ in lay}) for lay in self.layout],
                "cells": self.ncells(),
                "geo_low": list(self.geo_low), "geo_high": list(self.geo_high)}

    # ------------------------------------------------------------------ layout
    def file_order(self, lv):
        """{file: [box ids in on-disk order]}"""
        files = {}
        for b, (f, r) in enumerate(self.layout[lv]):
            files.setdefault(f, []).append((r, b))
        return {f: [b for _, b in sorted(v)] for f, v in files.items()}

    def offsets(self, lv):
        """(file, byte offset) per box for the dense packing the layout implies."""
        out = [None] * len(self.boxes[lv])
        nf = len(self.fields)
        for f, bids in self.file_order(lv).items():
            pos = 0
            for b in bids:
                out[b] = (f, pos)
                lo, hi = self.disk_box(lv, b)
                pos += len(fab_header(lo, hi, nf)) + 8 * nf * int(np.prod(self.box_shape(lv, b)))
        return out

    def disk_box(self, lv, b):
        """(lo, hi) of a box as written to disk."""
        lo, hi = self.boxes[lv][b]
        k = getattr(self, "idx_shift", 0) * 2 ** lv
        if not k:
            return lo, hi
        return tuple(v - k for v in lo), tuple(v - k for v in hi)

    def layout_class(self, lv):
        """'mono' if in every file offsets increase with header order, else 'nonmono'."""
        for f, bids in self.file_order(lv).items():
            if bids != sorted(bids):
                return "nonmono"
        return "mono"

    def is_monotone(self):
        return all(self.layout_class(lv) == "mono" for lv in range(self.nlev))

    # ------------------------------------------------------------------ min/max
    def minmax_rows(self, lv):
        mins, maxs = [], []
        fmin, fmax = (np.nanmin, np.nanmax) if getattr(self, "nanskip", False) else (np.min, np.max)
        for arr in self.data[lv]:
            flat = arr.reshape(-1, arr.shape[-1])
            mins.append(fmin(flat, axis=0))
            maxs.append(fmax(flat, axis=0))
        return mins, maxs

    # ------------------------------------------------------------------ pure operations
    def copy_meta(self):
        m = PlotModel()
        for k in ("ndims", "time", "geo_low", "geo_high", "nlev", "steps", "version",
                  "float_fmt", "idx_shift"):
            v = getattr(self, k)
            setattr(m, k, list(v) if isinstance(v, list) else v)
        m.dx = [list(d) for d in self.dx]
        m.grid_sizes = [tuple(g) for g in self.grid_sizes]
        m.boxes = [list(b) for b in self.boxes]
        m.fields = list(self.fields)
        m.layout = [list(l) for l in self.layout]
        m.data = [list(d) for d in self.data]
        m.phys = None if self.phys is None else [[list(b) for b in lv] for lv in self.phys]
        return m

    def restrict(self, fields, limit=None):
        """colander: keep `fields` (ordered, all present) and levels 0..limit."""
        if limit is None:
            limit = self.nlev - 1
        idx = [self.fields.index(f) for f in fields]
        m = self.copy_meta()
        m.nlev = limit + 1
        m.dx = m.dx[:limit + 1]
        m.grid_sizes = m.grid_sizes[:limit + 1]
        m.boxes = m.boxes[:limit + 1]
        m.layout = m.layout[:limit + 1]
        m.steps = m.steps[:limit + 1]
        if m.phys is not None:
            m.phys = m.phys[:limit + 1]
        m.fields = list(fields)
        m.data = [[arr[..., idx] for arr in self.data[lv]] for lv in range(limit + 1)]
        return m

    def combine(self, other, f1, f2):
        """combine: fields f1 of self followed by fields f2 of other, box by box (matched by
        index range)."""
        i1 = [self.fields.index(f) for f in f1]
        i2 = [other.fields.index(f) for f in f2]
        m = self.copy_meta()
        m.fields = list(f1) + list(f2)
        m.data = []
        for lv in range(self.nlev):
            omap = {other.boxes[lv][b]: b for b in range(len(other.boxes[lv]))}
            lvd = []
            for b, box in enumerate(self.boxes[lv]):
                a1 = self.data[lv][b][..., i1]
                a2 = other.data[lv][omap[box]][..., i2]
                lvd.append(np.concatenate([a1, a2], axis=-1))
            m.data.append(lvd)
        return m

    def with_fields(self, names, fn):
        """chef-like: new model whose box arrays are fn(lv, b, arr)->array(...,len(names))."""
        m = self.copy_meta()
        m.fields = list(names)
        m.data = [[fn(lv, b, arr) for b, arr in enumerate(self.data[lv])]
                  for lv in range(self.nlev)]
        return m

    def covering_grid(self, fidx, limit=None, with_level=False):
        """Uniform grid at level `limit`: finest data covering each cell, coarser cells
        replicated.  Returns array (nx,ny[,nz]) and optionally the level map."""
        if limit is None:
            limit = self.nlev - 1
        shape = tuple(int(s) for s in self.grid_sizes[limit])
        out = np.zeros(shape)
        lvl = np.full(shape, -1, dtype=int)
        for lv in range(limit + 1):
            fac = 2 ** (limit - lv)
            for b, (lo, hi) in enumerate(self.boxes[lv]):
                arr = self.data[lv][b][..., fidx] if fidx is not None else None
                sl = tuple(slice(int(l) * fac, (int(h) + 1) * fac) for l, h in zip(lo, hi))
                if arr is not None:
                    rep = arr
                    for ax in range(self.ndims):
                        rep = np.repeat(rep, fac, axis=ax)
                    out[sl] = rep
                lvl[sl] = lv
        if with_level:
            return out, lvl
        return out

    def cell_centers(self, lv, d):
        n = int(self.grid_sizes[lv][d])
        return self.geo_low[d] + (np.arange(n) + 0.5) * self.dx[lv][d]

    def uncovered_mask(self, lv, b, limit):
        """bool array: cells of box b at lv not covered by a box of lv+1 (if lv<limit)."""
        lo, hi = self.boxes[lv][b]
        shape = self.box_shape(lv, b)
        mask = np.ones(shape, dtype=bool)
        if lv >= limit:
            return mask
        for (flo, fhi) in self.boxes[lv + 1]:
            clo = [int(l) // 2 for l in flo]
            chi = [int(h) // 2 for h in fhi]
            sl = []
            empty = False
            for d in range(self.ndims):
                a = max(clo[d], int(lo[d])) - int(lo[d])
                e = min(chi[d], int(hi[d])) - int(lo[d]) + 1
                if e <= a:
                    empty = True
                    break
                sl.append(slice(a, e))
            if not empty:
                mask[tuple(sl)] = False
        return mask

    def integral(self, fidx, limit=None, vfidx=None):
        """Sum over cells not covered by a finer selected level of v*dV(*vf); also returns
        the sum of |terms| (for a tolerance)."""
        if limit is None:
            limit = self.nlev - 1
        tot = 0.0
        atot = 0.0
        for lv in range(limit + 1):
            dV = float(np.prod(self.dx[lv]))
            for b in range(len(self.boxes[lv])):
                mask = self.uncovered_mask(lv, b, limit)
                v = self.data[lv][b][..., fidx]
                if vfidx is not None:
                    v = v * self.data[lv][b][..., vfidx]
                tot += dV * float(np.sum(v[mask]))
                atot += dV * float(np.sum(np.abs(v[mask])))
        return tot, atot


# ======================================================================== generator

FIELD_POOL = ["density", "temp", "x_velocity", "y_velocity", "z_velocity", "rhoh",
              "Y(H2)", "Y(O2)", "Y(N2)", "mag_vort", "pressure", "a", "b", "phi",
              "volFrac", "Y(CH2(S))", "mixture_fraction", "f7", "HeatRelease", "xi",
              # names that are prefixes of each other, long names, digits, punctuation
              "temperature", "I_R(CH2(S))", "progress_variable_based_on_the_sum_of_CO_and_CO2_mass_fractions",
              "D_17", "avg_pressure", "rho.E", "Y(NC12H26)", "1", "vel-x", "all_fields"]


def gen_mesh(src, ndims=None, max_levels=3, max_blocks0=3, max_boxes=24, bfs=(2, 4),
             min_levels=1, tag="w", max_cells=20000, force_3d=False, force_2d=False,
             origin=True, aniso=True, min_cells0=1):
    """Draw mesh structure (no data, no layout)."""
    m = PlotModel()
    if force_3d:
        m.ndims = 3
    elif force_2d:
        m.ndims = 2
    elif ndims is not None:
        m.ndims = ndims
    else:
        m.ndims = 2 + src.draw(f"{tag}.dims3", 0, 1)
    nd = m.ndims
    m.nlev = src.draw(f"{tag}.levels", min_levels, max_levels)
    bf = src.choice(f"{tag}.bf", list(bfs))
    minb = -(-min_cells0 // bf)
    # "uniform" meshes: every box of every level is k blocks wide in every direction, but refined patches
    # start on ANY block (aligned on the blocking factor, not on the box size)
    uniform = src.flag(f"{tag}.uniform", 8)
    if uniform:
        ku = src.choice(f"{tag}.uniform.k", [2, 3])
        nb0 = [ku * src.draw(f"{tag}.blocks0.{d}", max(1, -(-minb // ku)), 2) for d in range(nd)]
    else:
        nb0 = [src.draw(f"{tag}.blocks0.{d}", minb, max(minb, max_blocks0)) for d in range(nd)]
    # geometry
    if aniso and src.flag(f"{tag}.aniso"):
        cell0 = [src.choice(f"{tag}.dx0.{d}", [0.125, 0.25, 0.5, 0.0625, 0.1, 0.3, 1.0 / 3, 1.0 / 12, 1.0 / 7])
                 for d in range(nd)]
    else:
        c = src.choice(f"{tag}.dx0", [0.125, 0.25, 0.1, 0.002, 1.0 / 12, 1.0 / 30])
        cell0 = [c] * nd
    n0 = [bf * k for k in nb0]
    length = [cell0[d] * n0[d] for d in range(nd)]
    if origin and src.flag(f"{tag}.origin"):
        m.geo_low = [src.choice(f"{tag}.org.{d}", [0.0, 1.0, -1.0, 0.5, -0.375, 2.25, -3.0])
                     * length[d] for d in range(nd)]
    else:
        m.geo_low = [0.0] * nd
    m.geo_high = [m.geo_low[d] + length[d] for d in range(nd)]
    m.time = src.choice(f"{tag}.time", [0.0, 1.5, 1.3924182125972017e-08, 2.0, 1234.5678, 0.49947225144556617,
                                        -0.25, 1e22, 5e-324, 0.1 + 0.2])
    step0 = src.choice(f"{tag}.step", [0, 20, 70100])
    m.steps = [step0] * m.nlev
    m.grid_sizes.append(tuple(n0))
    m.dx.append([length[d] / n0[d] for d in range(nd)])
    if uniform:
        lo_b, hi_b = [0] * nd, [n - 1 for n in nb0]
        for lv in range(m.nlev):
            if lv:
                a_lo = [2 * v for v in lo_b]
                size = [2 * (h - l + 1) for l, h in zip(lo_b, hi_b)]
                ext = [ku * src.draw(f"{tag}.L{lv}.uext.{d}", 1, min(2, size[d] // ku)) for d in range(nd)]
                lo_b = [a_lo[d] + src.draw(f"{tag}.L{lv}.ustart.{d}", 0, size[d] - ext[d]) for d in range(nd)]
                hi_b = [lo_b[d] + ext[d] - 1 for d in range(nd)]
                m.grid_sizes.append(tuple(2 * v for v in m.grid_sizes[-1]))
                m.dx.append([x / 2 for x in m.dx[-1]])
            import itertools
            tiles = list(itertools.product(*[range(lo_b[d], hi_b[d] + 1, ku) for d in range(nd)]))
            if src.flag(f"{tag}.L{lv}.shuffle"):
                rng = np.random.default_rng(src.draw(f"{tag}.L{lv}.shseed", 0, 9999))
                tiles = [tiles[i] for i in rng.permutation(len(tiles))]
            m.boxes.append([(tuple(int(t) * bf for t in tl), tuple((int(t) + ku) * bf - 1 for t in tl)) for tl in tiles])
        return m
    # levels: region as boolean block arrays
    region = np.ones(tuple(nb0), dtype=bool)
    total_cells = 0
    levels_region = [region]
    for lv in range(1, m.nlev):
        allowed = region
        for ax in range(nd):
            allowed = np.repeat(allowed, 2, axis=ax)
        shape = allowed.shape
        # choose a sub-box of the block grid
        sub = []
        for d in range(nd):
            n = shape[d]
            ext = src.draw(f"{tag}.L{lv}.ext.{d}", 1, min(n, 4))
            start = src.draw(f"{tag}.L{lv}.start.{d}", 0, n - ext)
            sub.append(slice(start, start + ext))
        reg = np.zeros(shape, dtype=bool)
        reg[tuple(sub)] = True
        reg &= allowed
        holes = src.draw(f"{tag}.L{lv}.holes", 0, 2)
        if holes and reg.sum() > 1:
            rng = np.random.default_rng(src.draw(f"{tag}.L{lv}.holeseed", 0, 9999))
            idxs = np.argwhere(reg)
            for k in rng.permutation(len(idxs))[:min(holes, len(idxs) - 1)]:
                reg[tuple(idxs[k])] = False
        if not reg.any():
            # keep at least one block: pick the first allowed block
            first = np.argwhere(allowed)[0]
            reg[tuple(first)] = True
        region = reg
        levels_region.append(region)
        m.grid_sizes.append(tuple(2 * s for s in m.grid_sizes[-1]))
        m.dx.append([x / 2 for x in m.dx[-1]])
    # decompose each level region into boxes
    for lv in range(m.nlev):
        reg = levels_region[lv]
        style = src.draw(f"{tag}.L{lv}.decomp", 0, 2)
        maxext = src.draw(f"{tag}.L{lv}.maxext", 1, 3)
        seed = src.draw(f"{tag}.L{lv}.dseed", 0, 9999) if style == 2 else 0
        blocks = decompose(reg, style, maxext, seed)
        if len(blocks) > max_boxes:
            blocks = decompose(reg, 0, 4, 0)
        order = list(range(len(blocks)))
        if src.flag(f"{tag}.L{lv}.shuffle"):
            rng = np.random.default_rng(src.draw(f"{tag}.L{lv}.shseed", 0, 9999))
            order = list(rng.permutation(len(blocks)))
        boxes = []
        for k in order:
            blo, bhi = blocks[k]
            lo = tuple(int(v) * bf for v in blo)
            hi = tuple((int(v) + 1) * bf - 1 for v in bhi)
            boxes.append((lo, hi))
        m.boxes.append(boxes)
    return m


def decompose(reg, style, maxext, seed):
    """Split a boolean block region into disjoint rectangular boxes (in block coords,
    inclusive).  style 0: greedy maximal (up to maxext), 1: uniform single blocks when
    maxext==1 else greedy, 2: random extents."""
    nd = reg.ndim
    todo = reg.copy()
    rng = np.random.default_rng(seed)
    out = []
    for idx in np.argwhere(reg):
        idx = tuple(int(i) for i in idx)
        if not todo[idx]:
            continue
        lo = list(idx)
        hi = list(idx)
        for d in range(nd):
            if style == 2:
                want = int(rng.integers(1, maxext + 1))
            elif style == 1:
                want = 1
            else:
                want = maxext
            while hi[d] - lo[d] + 1 < want and hi[d] + 1 < reg.shape[d]:
                trial = list(hi)
                trial[d] += 1
                sl = tuple(slice(lo[k], trial[k] + 1) for k in range(nd))
                if todo[sl].all():
                    hi[d] += 1
                else:
                    break
        sl = tuple(slice(lo[k], hi[k] + 1) for k in range(nd))
        todo[sl] = False
        out.append((tuple(lo), tuple(hi)))
    return out


def _case_twin(name):
    for i in range(len(name) - 1, -1, -1):
        if name[i].isalpha():
            return name[:i] + name[i].swapcase() + name[i + 1:]
    return None


def gen_fields(src, nmin=1, nmax=6, tag="w", must=()):
    n = src.draw(f"{tag}.nfields", max(nmin, len(must)), nmax)
    names = list(must)
    start = src.draw(f"{tag}.fstart", 0, len(FIELD_POOL) - 1)
    k = 0
    while len(names) < n:
        cand = FIELD_POOL[(start + k) % len(FIELD_POOL)]
        k += 1
        if cand not in names:
            names.append(cand)
    if len(names) > len(must) + 1 and src.flag(f"{tag}.fcase", 6):
        # two names that differ only by the case of one letter (species Co / CO, fields Temp / temp): legal,
        # and distinct for anything that treats names as the exact strings of the Header
        j = src.draw(f"{tag}.fcase.of", 0, len(names) - 2)
        twin = _case_twin(names[j])
        if twin is not None and twin not in names:
            names[-1] = twin
    if len(names) > 1 and src.flag(f"{tag}.fshuffle"):
        rng = np.random.default_rng(src.draw(f"{tag}.fshseed", 0, 999))
        names = [names[i] for i in rng.permutation(len(names))]
    return names


def gen_layout(src, m, tag="w", max_files=4, force_style=None):
    """Distribute boxes over Cell_D files. style 0: contiguous chunks in header order
    (monotone), 1: round robin (monotone), 2: random files and random order in file."""
    m.layout = []
    for lv in range(m.nlev):
        nb = len(m.boxes[lv])
        nf = src.draw(f"{tag}.L{lv}.nfiles", 1, min(nb, max_files))
        style = force_style if force_style is not None else src.draw(f"{tag}.L{lv}.lstyle", 0, 2)
        first = src.choice(f"{tag}.L{lv}.fname0", [0, 1, 7])
        names = [f"Cell_D_{first + i:05d}" for i in range(nf)]
        if style == 0:
            per = -(-nb // nf)
            lay = [(names[b // per], b % per) for b in range(nb)]
        elif style == 1:
            lay = [(names[b % nf], b // nf) for b in range(nb)]
        else:
            rng = np.random.default_rng(src.draw(f"{tag}.L{lv}.lseed", 0, 9999))
            assign = rng.integers(0, nf, nb)
            # make sure file 0 is used (np.unique based code assumes nothing, but keep nf honest)
            ranks = rng.permutation(nb)
            lay = []
            for b in range(nb):
                lay.append((names[int(assign[b])], int(ranks[b])))
            # normalise ranks within each file to 0..k-1
            byf = {}
            for b, (f, r) in enumerate(lay):
                byf.setdefault(f, []).append((r, b))
            lay2 = [None] * nb
            for f, v in byf.items():
                for k, (_, b) in enumerate(sorted(v)):
                    lay2[b] = (f, k)
            lay = lay2
        m.layout.append(lay)
    return m


SPECIALS = np.array([np.nan, np.inf, -np.inf, -0.0, 5e-324, 2.2250738585072014e-308 / 4,
                     1.7976931348623157e308, -1.7976931348623157e308])


def fill_random(m, data_seed, special=False, scale=1.0, zeros=False):
    """Unique-per-cell payloads from one 64-bit seed."""
    rng = np.random.default_rng(data_seed)
    nf = len(m.fields)
    m.data = []
    for lv in range(m.nlev):
        lvd = []
        for b in range(len(m.boxes[lv])):
            shape = m.box_shape(lv, b) + (nf,)
            arr = (rng.standard_normal(shape) * scale *
                   (10.0 ** rng.integers(-3, 4, size=(1,) * m.ndims + (nf,))))
            if special:
                k = max(1, arr.size // 7)
                pos = rng.integers(0, arr.size, k)
                flat = arr.reshape(-1)
                vals = SPECIALS[rng.integers(0, len(SPECIALS), k)].copy()
                flat[pos] = vals
                # NaNs with payload bits
                nanpos = pos[np.isnan(vals)]
                if len(nanpos):
                    bits = flat.view(np.uint64)
                    bits[nanpos] = np.uint64(0x7ff8000000000000) | rng.integers(
                        1, 1 << 20, len(nanpos)).astype(np.uint64)
            if zeros:
                # whole components of whole boxes exactly +0.0 / -0.0 (masked or not-yet-computed fields)
                for k in range(nf):
                    z = rng.integers(0, 4)
                    if z == 0:
                        arr[..., k] = 0.0
                    elif z == 1:
                        arr[..., k] = -0.0
            lvd.append(arr)
        m.data.append(lvd)
    return m


def fill_with(m, fn):
    """fn(lv, b, coords) -> array (shape+(nf,)) where coords is a list of per-dimension
    cell-centre coordinate arrays broadcastable to the box shape, plus index arrays."""
    m.data = []
    for lv in range(m.nlev):
        lvd = []
        for b, (lo, hi) in enumerate(m.boxes[lv]):
            idx = np.meshgrid(*[np.arange(int(l), int(h) + 1) for l, h in zip(lo, hi)],
                              indexing="ij")
            coords = [m.geo_low[d] + (idx[d] + 0.5) * m.dx[lv][d] for d in range(m.ndims)]
            arr = np.asarray(fn(lv, b, idx, coords), dtype="float64")
            assert arr.shape == m.box_shape(lv, b) + (len(m.fields),), (arr.shape, m.box_shape(lv, b))
            lvd.append(arr)
        m.data.append(lvd)
    return m


def gen_scale_world(src, cls, tag="w"):
    """Worlds beyond the usual tiny scale, one dimension at a time (real plotfiles have boxes of tens of
    MB, hundreds of boxes per file, 4-5 digit indices, 40 fields):
      hugebox    one 64^3 box with 5 fields (10.5 MB payload) + a small fine level
      manyboxes  144 boxes of 2^3 (or 2^2) in 1-2 files (72+ boxes per file, not a multiple of 64)
      farcorner  5 levels, fine boxes at indices >= 1000 in every direction (FAB headers > 100 bytes)
      manyfields 40-45 fields on a tiny mesh
      manyfiles  306 boxes, each in a binary file of its own
      megabox    one box of 128 x 128 x 66 cells (> 2**20 values per component)
      longdomain 6 levels over a 16384 x 4 x 2 domain: three 4-cell wide boxes per fine level at the far
                 end, x indices up to 524287 (index comparisons with a relative tolerance go blind there)
    """
    m = PlotModel()
    m.time = 0.5
    rng = np.random.default_rng(src.draw(f"{tag}.scale.seed", 0, 9999))
    if cls == "hugebox":
        m.ndims = 3
        m.nlev = 2
        m.geo_low, m.geo_high = [0.0, -1.0, 2.0], [1.0, 0.0, 3.0]
        m.grid_sizes = [(64, 64, 64), (128, 128, 128)]
        m.dx = [[1.0 / 64] * 3, [1.0 / 128] * 3]
        m.boxes = [[((0, 0, 0), (63, 63, 63))], [((8, 8, 8), (15, 15, 15)), ((16, 8, 8), (19, 15, 15))]]
        m.fields = ["density", "temp", "x_velocity", "Y(H2)", "pressure"]
    elif cls == "manyboxes":
        m.ndims = 2 + src.draw(f"{tag}.scale.dims3", 0, 1)
        nb = (6, 6, 4) if m.ndims == 3 else (12, 12)
        m.nlev = 1
        m.geo_low = [0.0] * m.ndims
        m.geo_high = [float(n) for n in nb]
        m.grid_sizes = [tuple(2 * n for n in nb)]
        m.dx = [[0.5] * m.ndims]
        blocks = [tuple(int(v) for v in idx) for idx in np.argwhere(np.ones(nb, dtype=bool))]
        order = rng.permutation(len(blocks)) if src.flag(f"{tag}.scale.shuffle") else range(len(blocks))
        m.boxes = [[(tuple(2 * v for v in blocks[k]), tuple(2 * v + 1 for v in blocks[k])) for k in order]]
        m.fields = ["a", "b"][:src.draw(f"{tag}.scale.nf", 1, 2)]
    elif cls == "farcorner":
        m.ndims = 3
        m.nlev = 5
        m.geo_low, m.geo_high = [0.0, 0.0, 0.0], [1.0, 1.0, 1.0]
        m.grid_sizes = [tuple([64 * 2 ** l] * 3) for l in range(5)]
        m.dx = [[1.0 / (64 * 2 ** l)] * 3 for l in range(5)]
        m.boxes = [[((0, 0, 0), (31, 63, 63)), ((32, 0, 0), (63, 63, 63))]]
        hi = 63
        for l in range(1, 5):
            hi = 2 * hi + 1
            m.boxes.append([(tuple([hi - 7] * 3), tuple([hi] * 3)), ((hi - 15, hi - 7, hi - 7), (hi - 8, hi, hi))])
        m.fields = ["phi"]
    elif cls == "manyfiles":
        # 306 boxes of 2 x 2 cells, each in a binary file of its own (more than 256 files in one level)
        m.ndims = 2
        m.nlev = 1
        m.geo_low, m.geo_high = [0.0, 0.0], [18.0, 17.0]
        m.grid_sizes = [(36, 34)]
        m.dx = [[0.5, 0.5]]
        m.boxes = [[((2 * i, 2 * j), (2 * i + 1, 2 * j + 1)) for j in range(17) for i in range(18)]]
        m.fields = ["a", "b"][:src.draw(f"{tag}.scale.nf", 1, 2)]
    elif cls == "box32":
        # a single 32^3 box (with 3 ghost cells and >= 10 components a checkpoint state FAB exceeds 4 MiB)
        m.ndims = 3
        m.nlev = 1
        m.geo_low, m.geo_high = [0.0, 0.0, 0.0], [1.0, 1.0, 1.0]
        m.grid_sizes = [(32, 32, 32)]
        m.dx = [[1.0 / 32] * 3]
        m.boxes = [[((0, 0, 0), (31, 31, 31))]]
        m.fields = ["a"]
    elif cls == "megabox":
        # one box of 128 x 128 x 66 = 1 081 344 cells: more than 2**20 values per component and not a
        # multiple of it (chunked readers), 8.6 MB per component
        m.ndims = 3
        m.nlev = 1
        m.geo_low, m.geo_high = [0.0, 0.0, 0.0], [1.0, 1.0, 66.0 / 128.0]
        m.grid_sizes = [(128, 128, 66)]
        m.dx = [[1.0 / 128] * 3]
        m.boxes = [[((0, 0, 0), (127, 127, 65))]]
        m.fields = ["density"]
    elif cls == "longdomain":
        m.ndims = 3
        m.nlev = 6
        m.geo_low, m.geo_high = [0.0, 0.0, 0.0], [16384.0, 4.0, 2.0]
        m.grid_sizes = [(16384 * 2 ** l, 4 * 2 ** l, 2 * 2 ** l) for l in range(6)]
        m.dx = [[1.0 / 2 ** l] * 3 for l in range(6)]
        m.boxes = [[((4096 * k, 0, 0), (4096 * k + 4095, 3, 1)) for k in range(4)]]
        for l in range(1, 6):
            hi = 16384 * 2 ** l - 1
            # A and B are neighbours along x; C sits beside A and has a free slot beside B to move into
            m.boxes.append([((hi - 7, 0, 0), (hi - 4, 3, 3)), ((hi - 3, 0, 0), (hi, 3, 3)),
                            ((hi - 7, 4, 0), (hi - 4, 7, 3))])
        m.fields = ["phi", "psi"][:src.draw(f"{tag}.scale.nf", 1, 2)]
    else:
        m.ndims = 2 + src.draw(f"{tag}.scale.dims3", 0, 1)
        m.nlev = 1
        m.geo_low = [0.0] * m.ndims
        m.geo_high = [1.0] * m.ndims
        m.grid_sizes = [tuple([4] * m.ndims)]
        m.dx = [[0.25] * m.ndims]
        m.boxes = [[(tuple([0] * m.ndims), tuple([1, 3, 3][:m.ndims])), (tuple([2] + [0] * (m.ndims - 1)), tuple([3] * m.ndims))]]
        m.fields = [f"field_{k:02d}" for k in range(src.draw(f"{tag}.scale.nfields", 40, 45))]
    m.steps = [7] * m.nlev
    m.scale_cls = cls
    if cls == "manyfiles":
        order = rng.permutation(len(m.boxes[0]))
        m.layout = [[(f"Cell_D_{int(order[b]):05d}", 0) for b in range(len(m.boxes[0]))]]
    else:
        gen_layout(src, m, tag=tag, max_files=1 if cls == "longdomain" else (2 if cls == "manyboxes" else 3))
    fill_random(m, int(rng.integers(0, 10 ** 6)))
    return m


def gen_world(src, tag="w", special_ok=True, scale=(), scale_rate=24, lowprec_ok=False, **mesh_kw):
    if scale:
        k = src.draw(f"{tag}.scale", 0, scale_rate * len(scale) - 1)
        if k < len(scale) and not (mesh_kw.get("force_3d") and scale[k] in ()) :
            cls = scale[k]
            if not (mesh_kw.get("force_2d") and cls in ("hugebox", "farcorner", "longdomain", "megabox")):
                return gen_scale_world(src, cls, tag)
    # swarm flag: a share of worlds is "big" (more levels, boxes, files, fields) so that count- and
    # size-dependent behaviour is exercised; the rest stays tiny and fast
    big = src.flag(f"{tag}.big", 6)
    if big:
        mesh_kw = dict(mesh_kw)
        mesh_kw.setdefault("max_levels", 4)
        mesh_kw["max_levels"] = max(mesh_kw["max_levels"], 4) if "force_levels" not in mesh_kw else mesh_kw["max_levels"]
        mesh_kw["max_blocks0"] = max(mesh_kw.get("max_blocks0", 3), 5)
        mesh_kw["max_boxes"] = max(mesh_kw.get("max_boxes", 24), 48)
    m = gen_mesh(src, tag=tag, **mesh_kw)
    m.fields = gen_fields(src, tag=tag, nmax=12 if big else 6)
    gen_layout(src, m, tag=tag, max_files=7 if big else 4)
    special = special_ok and src.flag(f"{tag}.special", 4)
    zeros = src.flag(f"{tag}.zero_boxes", 5)
    if lowprec_ok and src.flag(f"{tag}.lowprec", 5):
        # geometry as a writer with 6 significant digits would print it (dx * n != hi - lo exactly)
        r6 = lambda v: float("%.6g" % v)
        m.geo_low = [r6(v) for v in m.geo_low]
        m.geo_high = [r6(v) for v in m.geo_high]
        m.dx = [[r6(v) for v in d] for d in m.dx]
        m.lowprec = True
    fill_random(m, src.draw(f"{tag}.dataseed", 0, 999999), special=special, zeros=zeros)
    gen_cosmetics(src, m, tag)
    return m


def gen_cosmetics(src, m, tag="w"):
    m.extra_ratio = src.draw(f"{tag}.extra_ratio", 0, 1)
    m.stale_levels = src.draw(f"{tag}.stale", 0, 1)
    # a binary file no level header refers to (left behind by an earlier write into the same directory)
    m.stale_file = src.flag(f"{tag}.stale_file", 10)
    m.float_fmt = src.choice(f"{tag}.ffmt", ["g17", "repr"])
    return m


# ======================================================================== writer

def fmt_row(vals):
    return ",".join("%.16e" % float(v) for v in vals) + ",\n"


def write_plotfile(m, path, minmax_override=None):
    """Materialise the model densely packed, exactly in the format AMReX writes.
    Returns {lv: [(file path, offset, header_len, nbytes)]} per box."""
    nd = m.ndims
    nf = len(m.fields)
    os.makedirs(path, exist_ok=False)
    disk = {}
    with open(os.path.join(path, "Header"), "w") as h:
        h.write(m.version + "\n")
        h.write(f"{nf}\n")
        for f in m.fields:
            h.write(f + "\n")
        h.write(f"{nd}\n")
        h.write(m.fmt(m.time) + "\n")
        h.write(f"{m.nlev - 1}\n")
        h.write(" ".join(m.fmt(v) for v in m.geo_low) + " \n")
        h.write(" ".join(m.fmt(v) for v in m.geo_high) + " \n")
        nr = m.nlev - 1 + m.extra_ratio
        h.write(" ".join(["2"] * nr) + (" " if nr else "") + "\n")
        doms = []
        for lv in range(m.nlev):
            k = getattr(m, "idx_shift", 0) * 2 ** lv
            doms.append("(" + fmt_idx([-k] * nd) + " " +
                        fmt_idx([s - 1 - k for s in m.grid_sizes[lv]]) + " " + fmt_idx([0] * nd) + ")")
        h.write(" ".join(doms) + " \n")
        h.write(" ".join(str(s) for s in m.steps) + " \n")
        for lv in range(m.nlev):
            h.write(" ".join(m.fmt(v) for v in m.dx[lv]) + " \n")
        h.write("0\n")
        h.write("0\n")
        for lv in range(m.nlev):
            h.write(f"{lv} {len(m.boxes[lv])} {m.fmt(m.time)}\n")
            h.write(f"{m.steps[lv]}\n")
            for b in range(len(m.boxes[lv])):
                for lo, hi in m.box_phys(lv, b):
                    h.write(f"{m.fmt(lo)} {m.fmt(hi)}\n")
            h.write(f"Level_{lv}/Cell\n")
        for k in range(m.stale_levels):
            lv = m.nlev + k
            h.write(f"{lv} 1 {m.fmt(m.time)}\n")
            h.write(f"{m.steps[0]}\n")
            for d in range(nd):
                h.write(f"{m.fmt(m.geo_low[d])} {m.fmt(m.geo_high[d])}\n")
            h.write(f"Level_{lv}/Cell\n")
        h.write("\n")
    for lv in range(m.nlev):
        ldir = os.path.join(path, f"Level_{lv}")
        os.makedirs(ldir)
        offs = m.offsets(lv)
        info = [None] * len(m.boxes[lv])
        for f, bids in m.file_order(lv).items():
            with open(os.path.join(ldir, f), "wb") as bf:
                for b in bids:
                    lo, hi = m.disk_box(lv, b)
                    hd = fab_header(lo, hi, nf)
                    assert bf.tell() == offs[b][1]
                    bf.write(hd)
                    payload = np.ascontiguousarray(m.data[lv][b]).astype("float64")
                    raw = payload.flatten(order="F").tobytes()
                    bf.write(raw)
                    info[b] = (os.path.join(ldir, f), offs[b][1], len(hd), len(raw))
        disk[lv] = info
        if getattr(m, "stale_file", False) and lv == (m.nlev - 1) // 2:
            lo, hi = m.disk_box(lv, 0)
            with open(os.path.join(ldir, "Cell_D_00077"), "wb") as bf:
                bf.write(fab_header(lo, hi, nf))
                bf.write(np.full(int(np.prod(m.box_shape(lv, 0))) * nf, 7.7e77).tobytes())
        if minmax_override is not None:
            mins, maxs = minmax_override[lv]
        else:
            mins, maxs = m.minmax_rows(lv)
        with open(os.path.join(ldir, "Cell_H"), "w") as ch:
            ch.write("1\n1\n")
            ch.write(f"{nf}\n")
            ch.write("0\n")
            ch.write(f"({len(m.boxes[lv])} 0\n")
            for b in range(len(m.boxes[lv])):
                lo, hi = m.disk_box(lv, b)
                ch.write("(" + fmt_idx(lo) + " " + fmt_idx(hi) + " " + fmt_idx([0] * nd) + ")\n")
            ch.write(")\n")
            ch.write(f"{len(m.boxes[lv])}\n")
            for b in range(len(m.boxes[lv])):
                ch.write(f"FabOnDisk: {offs[b][0]} {offs[b][1]}\n")
            ch.write("\n")
            ch.write(f"{len(m.boxes[lv])},{nf}\n")
            for row in mins:
                ch.write(fmt_row(row))
            ch.write("\n")
            ch.write(f"{len(m.boxes[lv])},{nf}\n")
            for row in maxs:
                ch.write(fmt_row(row))
            ch.write("\n")
    return disk


def bits(a):
    """uint64 view for bitwise comparison (NaN payloads, -0.0)."""
    return np.ascontiguousarray(np.asarray(a, dtype="float64")).view(np.uint64)


def same_values(a, b):
    """Bitwise equality, except that any NaN equals any NaN: which NaN payload an arithmetic result
    carries depends on the SIMD code path numpy happens to take, not on the inputs alone."""
    a = np.asarray(a, dtype="float64")
    b = np.asarray(b, dtype="float64")
    if a.shape != b.shape:
        return False
    return bool(np.all((bits(a) == bits(b)) | (np.isnan(a) & np.isnan(b))))


def same_bits(a, b):
    a = np.asarray(a)
    b = np.asarray(b)
    if a.shape != b.shape:
        return False
    return bool(np.array_equal(bits(a), bits(b)))
