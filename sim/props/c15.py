"""C15 - level iteration yields every box exactly once, whatever the schedule."""
import numpy as np

from .. import world
from ..core import Violation, run_tool
from ..choice import ChoiceSource, perm_from_index
from ..pool import _feasible_order
from . import common

ID = "C15"
LEVEL = "exploration"
BUDGET = {"quick": 8000, "thorough": 160000}
WALL_CAP = {"quick": 600, "thorough": 5400}
RULE = ("case = generated 2D/3D plotfile (levels, mixed box extents, boxes scattered over files in any "
        "on-disk order, special payloads) x field-selector form x level, iterated under a drawn SimPool "
        "schedule (W, completion order, lazy/eager delivery; all completion orders are reachable through the "
        "single-draw permutation for <=6 per-file tasks; for levels with 2-4 binary files ALL feasible completion "
        "orders x W in {1,2,16} x {lazy, eager} are enumerated as well) plus .iter(sel) for int/slice/list/mask selections; "
        "in 2 of 5 iteration cases the selection object was iterated in part before; fault arm (an eighth): the worker "
        "processes of a pool cannot be started (EAGAIN) - the iteration may fail, one that completes must be exact; "
        "non-trivial = the level has >=2 binary files (>=2 pool tasks) or a non-monotone file layout; "
        "distinct = hash of (world summary, selector, level, schedule)")
ASSUMPTIONS = ["independent reader/model (sim/world.py, sim/reader.py) is the oracle",
               "payloads unique per cell, so equal digests mean the same stored box"]


class SuffixScript(ChoiceSource):
    """Schedule source for enumerations: values by label SUFFIX (pool ids vary), lo otherwise."""

    def __init__(self, script):
        super().__init__()
        self.script = dict(script)

    def _next(self, label, lo, hi):
        for suf, v in self.script.items():
            if label.endswith(suf):
                return min(max(v, lo), hi)
        return lo


def box_selector(src, nb, tag):
    form = src.draw(f"{tag}.form", 0, 3)
    if form == 0:
        i = src.draw(f"{tag}.i", 0, nb - 1)
        return i, [i], f"int {i}"
    if form == 1:
        a = src.draw(f"{tag}.a", 0, nb)
        b = src.draw(f"{tag}.b", 0, nb + 1)
        st = src.draw(f"{tag}.st", 1, 3)
        a_ = None if a == nb else a
        b_ = None if b == nb + 1 else b
        sl = slice(a_, b_, st if st > 1 else None)
        return sl, list(range(nb))[sl], f"slice {sl}"
    if form == 2:
        k = src.draw(f"{tag}.k", 1, min(nb + 1, 5))
        idx = [src.draw(f"{tag}.e{j}", 0, nb - 1) for j in range(k)]
        return list(idx), idx, f"list {idx}"
    mask = [bool(src.draw(f"{tag}.m{j}", 0, 1)) for j in range(nb)]
    return np.array(mask), [i for i, v in enumerate(mask) if v], f"mask {mask}"


def run_case(ctx):
    src = ctx.src
    common.draw_env(ctx)
    common.prelude(ctx)
    m = world.gen_world(src, scale=("hugebox", "manyboxes", "farcorner", "manyfields", "longdomain", "manyfiles"), lowprec_ok=True)
    from amr_kitchen import PlotfileCooker as _PC
    path, hcwd, _abs, hmode = common.history_materialise(
        ctx, m, lambda p: run_tool(ctx, lambda: (list(_PC(p)[0][0]), _PC(p)[0][0][:])))
    o = common.open_cooker(ctx, path)
    if not o.ok:
        raise Violation({"property": ID, "oracle": "open", **o.exc_sig()},
                        f"PlotfileCooker cannot open a well-formed plotfile: {o.exc!r}")
    pck = o.value
    nsel = src.draw("nsel", 1, 3)
    keyparts = [m.summary()]
    for s in range(nsel):
        fsel, fidx, fdesc = common.field_selector(src, m, tag=f"s{s}.f")
        lv = src.draw(f"s{s}.lv", 0, m.nlev - 1)
        nb = len(m.boxes[lv])
        nfiles = len({f for f, _ in m.layout[lv]})
        mode = src.draw(f"s{s}.mode", 0, 1)
        sig = {"property": ID, "fsel": _fclass(fsel), "layout": m.layout_class(lv)}
        if nfiles >= 2 or m.layout_class(lv) == "nonmono":
            ctx.nontrivial = True
        if mode == 0:
            cap = nb + nfiles + 2
            # the selection object was already iterated in part (a peek at the first boxes, a loop left with
            # break): iterating it again starts over and yields every box
            peek = min(src.choice(f"s{s}.peek", [0, 0, 0, 1, 2]), nb)

            def it():
                out = []
                stream = pck[fsel][lv]
                if peek:
                    first = iter(stream)
                    for _ in range(peek):
                        next(first)
                itr = iter(stream)
                n = 0
                while True:
                    n += 1
                    if n > cap + 1:
                        return out, False
                    try:
                        out.append(next(itr))
                    except StopIteration:
                        return out, True
            o = run_tool(ctx, it, label=f"list(pck[{fdesc}][{lv}])")
            if not o.ok:
                raise Violation({**sig, "oracle": "iteration-raises", **o.exc_sig()},
                                f"iterating {fdesc} at level {lv} raised {o.exc!r}")
            got, stopped = o.value
            if not stopped:
                raise Violation({**sig, "oracle": "iteration-stops"},
                                f"iteration over level {lv} did not stop after {cap + 1} next() calls "
                                f"for {nb} boxes in {nfiles} files")
            want = sorted(common.arr_digest(common.expected_box(m, lv, b, fidx)) for b in range(nb))
            have = sorted(common.arr_digest(a) for a in got)
            if want != have:
                raise Violation({**sig, "oracle": "iteration-multiset", "count_ok": len(got) == nb},
                                f"iteration over {fdesc} at level {lv} yielded {len(got)} arrays for {nb} boxes; "
                                f"multiset of (shape, bytes) differs from the stored boxes; "
                                f"shapes got {[a.shape for a in got][:6]} want "
                                f"{[common.expected_box(m, lv, b, fidx).shape for b in range(nb)][:6]}")
            if src.flag(f"s{s}.poolfault", 8):
                # fault-injecting configuration: the worker processes of the k-th pool of the iteration cannot be
                # started (fork refused).  The iteration may fail; one that completes must still be exact
                ctx.pool_fail_at = src.draw(f"s{s}.poolfault.k", 0, 1 if peek else 0)
                try:
                    o = run_tool(ctx, it, label=f"list(pck[{fdesc}][{lv}]) with a pool that cannot start")
                finally:
                    fired = ctx.pool_fail_at is None
                    ctx.pool_fail_at = None
                if fired:
                    ctx.probe("pool_start_fault_fired")
                    if o.ok and (not o.value[1] or sorted(common.arr_digest(a) for a in o.value[0]) != want):
                        raise Violation({**sig, "oracle": "iteration-after-pool-start-failure"},
                                        f"the worker pool could not be started (EAGAIN) while iterating {fdesc} at level "
                                        f"{lv}; the iteration completed all the same and yielded {len(o.value[0])} arrays "
                                        f"for {nb} boxes / another multiset than the stored boxes")
                    if not o.ok:
                        ctx.probe("pool_start_fault_reported")
            keyparts.append(("iter", fdesc, lv, peek))
            if peek:
                ctx.probe("iterated_again_after_partial_iteration")
            # <= 4 per-file tasks: ALL feasible completion orders x W in {1,2,16} x {lazy, eager}
            if 2 <= nfiles <= 4:
                import math
                seen = set()
                for W, widx in ((1, 0), (2, 2), (16, 8)):
                    for k in range(math.factorial(nfiles)):
                        order = tuple(_feasible_order(nfiles, W, perm_from_index(nfiles, k)))
                        for eager in (0, 1):
                            if (min(W, nfiles), order, eager) in seen:
                                continue
                            seen.add((min(W, nfiles), order, eager))
                            ctx.pool_src = SuffixScript({".W": widx, ".style": 4, ".eager": eager, ".perm": k})
                            try:
                                o = run_tool(ctx, it)
                            finally:
                                ctx.pool_src = None
                            ctx.stats["enumerated_orders"] += 1
                            if not o.ok or not o.value[1] or \
                                    sorted(common.arr_digest(a) for a in o.value[0]) != want:
                                raise Violation({**sig, "oracle": "iteration-under-enumerated-order"},
                                                f"iterating {fdesc} at level {lv} with W={W}, completion order "
                                                f"{list(order)}, {'eager' if eager else 'lazy'} delivery: "
                                                f"{'raised ' + repr(o.exc) if not o.ok else 'wrong multiset / no stop'}")
                ctx.probe("enumeration_complete")
        else:
            bsel, bidx, bdesc = box_selector(src, nb, f"s{s}.b")
            if isinstance(bsel, int):
                continue
            o = run_tool(ctx, lambda: list(pck[fsel][lv].iter(bsel)), label=f"list(pck[{fdesc}][{lv}].iter({bdesc}))")
            if not o.ok:
                raise Violation({**sig, "oracle": "iter-sel-raises", **o.exc_sig()},
                                f".iter({bdesc}) of {fdesc} at level {lv} raised {o.exc!r}")
            got = o.value
            want = [common.expected_box(m, lv, b, fidx) for b in bidx]
            if len(got) != len(want) or any(not world.same_bits(g, w) for g, w in zip(got, want)):
                raise Violation({**sig, "oracle": "iter-sel-order", "bsel": bdesc.split()[0]},
                                f".iter({bdesc}) of {fdesc} at level {lv}: got {len(got)} arrays "
                                f"{[g.shape for g in got][:5]}, want boxes {bidx} in that order "
                                f"{[w.shape for w in want][:5]}")
            keyparts.append(("itersel", fdesc, lv, bdesc))
    # one selector OBJECT (list / numpy array with from-the-end indices) used to iterate over two plotfiles with
    # different field counts in turn (A, B, A): every use must yield the fields it designates in THAT plotfile
    if src.flag("reuse", 4):
        m2 = world.gen_world(src, tag="w2", max_levels=1, max_boxes=4)
        path2 = common.materialise(ctx, m2, name="plt00200")[0]
        o2 = common.open_cooker(ctx, path2)
        if o2.ok:
            nmin = min(len(m.fields), len(m2.fields))
            neg = sorted({-1 - src.draw(f"reuse.e{j}", 0, nmin - 1) for j in range(src.draw("reuse.k", 1, 2))})
            as_array = bool(src.draw("reuse.array", 0, 1))
            sel = np.array(neg) if as_array else list(neg)
            desc0 = f"{'np.array' if as_array else 'list'}({neg})"
            for which, (pk, mm) in enumerate(((pck, m), (o2.value, m2), (pck, m))):
                nfx = len(mm.fields)
                idx = [v + nfx for v in neg]
                o = run_tool(ctx, lambda: list(pk[sel][0]),
                             label=f"list(pck_{'ABA'[which]}[shared selector {desc0}][0]) ({nfx} fields)")
                if not o.ok:
                    continue        # a refusal of from-the-end indices is not judged here
                want = sorted(common.arr_digest(mm.data[0][b][..., idx]) for b in range(len(mm.boxes[0])))
                have = sorted(common.arr_digest(a) for a in o.value)
                if want != have:
                    raise Violation({"property": ID, "oracle": "shared-selector", "use": which, "array": as_array},
                                    f"selector {desc0} used for the {['first', 'second', 'third'][which]} time, to "
                                    f"iterate over a plotfile with {nfx} fields, yielded other data than fields {idx} "
                                    f"of every box; the selector object now reads {sel!r}")
            keyparts.append(("reuse", desc0, len(m2.fields)))
    keyparts.append(sorted(map(str, ctx.sigs)))
    ctx.case_key = common.key_of(keyparts)
    ctx.sample = {"world": m.summary(), "selections": ctx.describe["operations"][1:],
                  "schedules": ctx.describe["schedules"][:3]}


def _fclass(fsel):
    if isinstance(fsel, slice):
        if fsel.start in (None, 0):
            return "slice0"
        return "slice+"
    if isinstance(fsel, np.ndarray):
        return "int-array"
    if isinstance(fsel, list):
        return "names" if isinstance(fsel[0], str) else "ints"
    return "name" if isinstance(fsel, str) else "int"
def evidence_extra(stats):
    return {"enumerated_orders": stats.get("enumerated_orders", 0)}
