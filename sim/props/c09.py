"""C09 - pestle integrates every point of the domain exactly once."""
import re

import numpy as np

from .. import world
from ..core import Violation, run_tool
from . import common

ID = "C09"
LEVEL = "exploration"
BUDGET = {"quick": 32000, "thorough": 640000}
WALL_CAP = {"quick": 600, "thorough": 5400}
RULE = ("case = generated 3D plotfile (1-4 properly nested, partially refined levels on blocking factor 2 or 4, mixed "
        "box extents such as 4 and 6 cells = the small-scale image of 16/24, anisotropic cells, non-zero origin, boxes "
        "scattered over files, finite payloads, optional volFrac field in [0,1]) x field x level limit in {None, "
        "0..finest} x volfrac on/off x entry form {reader opened with the limit + volume_integral, reader opened at "
        "full depth + volume_integral(limit_level=L), CLI main() with -l/-vf parsing the printed number}, integrated "
        "under a drawn SimPool schedule (ordered imap accumulation); oracle: |result - sum over cells not covered by a "
        "finer selected level of v*dV(*vf)| <= 1e-10 * sum|terms| (+ the CLI's 15-decimal print granularity). The "
        "schedule is the only simulator contribution to this property (the value oracle does the deciding). "
        "non-trivial = >= 2 levels selected or mixed box extents; distinct = hash(world, field, limit, form, schedules)")
ASSUMPTIONS = ["levels are properly nested and aligned on an even blocking factor (what AMReX guarantees)",
               "independent model is the oracle"]


def run_case(ctx):
    src = ctx.src
    common.draw_env(ctx)
    common.prelude(ctx)
    if src.flag("megabox", 120):
        # scale class: a single box with more than 2**20 cells (size-gated and chunked read paths)
        m = world.gen_scale_world(src, "megabox", tag="w")
        names = list(m.fields)
        ctx.probe("megabox")
    else:
        m = world.gen_mesh(src, tag="w", force_3d=True, max_levels=4, max_boxes=20)
        names = world.gen_fields(src, tag="w", nmax=4)
        has_vf = bool(src.draw("volfrac.field", 0, 1))
        if has_vf and "volFrac" not in names:
            names.insert(src.draw("volfrac.pos", 0, len(names)), "volFrac")
        m.fields = names
        world.gen_layout(src, m, tag="w")
        world.fill_random(m, src.draw("w.dataseed", 0, 999999))
    if "volFrac" in names:
        rng = np.random.default_rng(src.draw("vf.seed", 0, 9999))
        k = names.index("volFrac")
        for lv in range(m.nlev):
            for arr in m.data[lv]:
                arr[..., k] = np.clip(rng.uniform(-0.3, 1.3, arr.shape[:-1]), 0.0, 1.0)
    world.gen_cosmetics(src, m, "w")
    field = src.choice("field", names)
    limit = src.draw("limit.v", 0, m.nlev - 1) if src.flag("limit") else None
    if src.flag("covered_garbage", 3):
        # coarse cells covered by the next SELECTED level hold garbage (NaN / inf): a solver need not
        # average fine data down; such cells must not enter the integral at all
        Lsel = m.nlev - 1 if limit is None else limit
        rngc = np.random.default_rng(src.draw("covered.seed", 0, 9999))
        for lv in range(Lsel):
            for b in range(len(m.boxes[lv])):
                cov = ~m.uncovered_mask(lv, b, Lsel)
                if cov.any():
                    vals = rngc.choice([np.nan, np.inf, -np.inf, 1e300], size=int(cov.sum()))
                    for k in range(len(names)):
                        m.data[lv][b][..., k][cov] = vals
        ctx.probe("covered_cells_poisoned")

    def warm(p):
        from amr_kitchen import PlotfileCooker as _PC
        from amr_kitchen.pestle import volume_integral as _vi
        run_tool(ctx, lambda: _vi(_PC(p, ghost=True), field))
    path, hcwd, _abs, hmode = common.history_materialise(ctx, m, warm)
    use_vf = bool(src.draw("use_volfrac", 0, 1))
    form = src.choice("form", ["reader-limit", "arg-limit", "cli"])
    fidx = names.index(field)
    vfidx = names.index("volFrac") if (use_vf and "volFrac" in names) else None
    want, atot = m.integral(fidx, limit, vfidx)
    sig = {"property": ID, "form": form, "limit": "none" if limit is None else ("finest" if limit == m.nlev - 1 else
                                                                               ("zero" if limit == 0 else "mid"))}
    from amr_kitchen import PlotfileCooker
    from amr_kitchen.pestle import volume_integral
    if form == "cli":
        from amr_kitchen.pestle import cli
        argv = ["pestle", "-v", field] + (["-l", str(limit)] if limit is not None else []) + (["-vf"] if use_vf else []) + [path]
        o = run_tool(ctx, cli.main, argv=argv, label=f"pestle {argv[1:]}")
        if o.ok:
            mt = re.search(r"Volume integral of .* in plotfile: (\S+) ", o.out)
            if not mt:
                raise Violation({**sig, "oracle": "cli-output"}, f"pestle CLI printed no result: {o.out[-300:]}")
            got = float(mt.group(1))
        tol_extra = 1e-15
    elif form == "reader-limit":
        kw = {} if limit is None else {"limit_level": limit}
        o = run_tool(ctx, lambda: volume_integral(PlotfileCooker(path, ghost=True, **kw), field, use_volfrac=use_vf),
                     label=f"volume_integral(PlotfileCooker(limit={limit}), {field}, vf={use_vf})")
        got = o.value
        tol_extra = 0.0
    else:
        o = run_tool(ctx, lambda: volume_integral(PlotfileCooker(path, ghost=True), field, limit_level=limit,
                                                  use_volfrac=use_vf),
                     label=f"volume_integral(PlotfileCooker(), {field}, limit_level={limit}, vf={use_vf})")
        got = o.value
        tol_extra = 0.0
    shapes = sorted({m.box_shape(lv, b) for lv in range(m.nlev) for b in range(len(m.boxes[lv]))})
    what = f"field={field} limit={limit} volfrac={use_vf} form={form} box shapes={shapes} world={m.summary()}"
    if not o.ok:
        raise Violation({**sig, "oracle": "integral-raises", **o.exc_sig()}, f"pestle raised {o.exc!r}; {what}")
    got = float(got)
    tol = 1e-10 * atot + tol_extra + 1e-300
    if not abs(got - want) <= tol:
        mixed = len({s for shp in shapes for s in shp}) > 1
        raise Violation({**sig, "oracle": "integral-value", "mixed_extents": mixed, "levels": min(m.nlev, 2)},
                        f"integral {got!r} differs from the sum over uncovered cells {want!r} by {got - want:.3e} "
                        f"(tolerance {tol:.3e}); {what}")
    L = m.nlev - 1 if limit is None else limit
    if L >= 1 or len({s for shp in shapes for s in shp}) > 1:
        ctx.nontrivial = True
    ctx.case_key = common.key_of([m.summary(), field, limit, use_vf, form, sorted(map(str, ctx.sigs))])
    ctx.sample = {"world": m.summary(), "box_shapes": [list(s) for s in shapes], "field": field, "limit": limit,
                  "volfrac": use_vf, "form": form, "integral": got}
