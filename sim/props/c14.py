"""C14 - tool outputs are valid tool inputs: pipelines equal the composed pure operations."""
import os

import numpy as np

from .. import world
from ..core import Violation, run_tool
from ..reader import parse_header, FormatError
from . import common, tools
from .tools import RECIPE_SRC, recipe_eval

ID = "C14"
LEVEL = "exploration"
BUDGET = {"quick": 3200, "thorough": 64000}
WALL_CAP = {"quick": 600, "thorough": 5400}
RULE = ("case = history of 1-4 operations over {colander(vars, limit), combine(with a sibling or ancestor on the same "
        "mesh, optional selections), chef(user recipe, kept fields)} starting from 1-2 generated 3D plotfiles on one "
        "mesh (independent layouts) or from a chk2plt conversion of a synthetic checkpoint; every operation runs "
        "through API or CLI under its own drawn SimPool schedule (a share of histories with FORK pools, i.e. state "
        "carried in real worker processes between operations); after EACH step taste accepts the new tree and the "
        "independent reader's parse equals the pure operation applied to the model of its inputs (fields, mesh, box "
        "values bitwise, min/max rows); at the end the two named identities are exercised explicitly: cook-then-"
        "combine-back = original fields unchanged + the new one, strain-all = identity on contents. non-trivial = "
        "history length >= 2; distinct = hash(start worlds, operation list, schedules)")
ASSUMPTIONS = ["independent reader/model is the oracle", "the order of kept vs new fields written by chef is taken "
               "from its output header (the statement fixes none); everything else is compared against the model"]


class Item:
    def __init__(self, path, model, origin):
        self.path = path
        self.m = model
        self.origin = origin

    def mesh_key(self):
        return (self.m.nlev, tuple(tuple(b) for b in self.m.boxes))


def true_minmax(m):
    return {lv: m.minmax_rows(lv) for lv in range(m.nlev)}


def check_step(ctx, sig, out, expect, minmax):
    common.check_output_plotfile(ctx, sig, out, expect, minmax=minmax)


def do_colander(ctx, src, items, k, step, final_all=False):
    from amr_kitchen.colander.colander import Colander
    from amr_kitchen.colander import cli
    from .c05 import draw_selection
    it = items[k]
    if final_all:
        req, names, limit = ["all"], list(it.m.fields), None
    else:
        req, names = draw_selection(src, it.m, tag=f"s{step}.sel")
        limit = src.draw(f"s{step}.limit", 0, it.m.nlev - 1) if src.flag(f"s{step}.haslimit") else None
    out = os.path.join(ctx.scratch, f"p{step}_strained")
    use_cli = bool(src.draw(f"s{step}.cli", 0, 1))
    if use_cli:
        argv = ["colander", it.path, "-v", *req, "-o", out] + (["-l", str(limit)] if limit is not None else [])
        o = run_tool(ctx, cli.main, cwd=ctx.scratch, argv=argv, label=f"step {step}: colander {argv[1:]}")
    else:
        o = run_tool(ctx, lambda: Colander(plotfile=it.path, limit_level=limit, output=out,
                                           variables=list(req)).strain(), cwd=ctx.scratch,
                     label=f"step {step}: Colander(#{k}, {req}, limit={limit})")
    desc = f"colander(#{k},{req},{limit})"
    expect = it.m.restrict(names, limit)
    idx = [it.m.fields.index(f) for f in names]
    mm = {}
    for lv in range(expect.nlev):
        mins, maxs = it.m.minmax_rows(lv)
        mm[lv] = ([r[idx] for r in mins], [r[idx] for r in maxs])
    return o, out, expect, mm, desc, "colander"


def do_combine(ctx, src, items, k, step):
    from amr_kitchen import PlotfileCooker
    from amr_kitchen.combine import combine
    from amr_kitchen.combine import cli
    a = items[k]

    def compatible(x, y):
        n = min(x.m.nlev, y.m.nlev)
        return all(list(x.m.boxes[lv]) == list(y.m.boxes[lv]) for lv in range(n))
    partners = [j for j, it in enumerate(items) if j != k and compatible(a, it)
                and any(f not in a.m.fields for f in it.m.fields)]
    if not partners:
        return None
    j = partners[src.draw(f"s{step}.partner", 0, len(partners) - 1)]
    b = items[j]
    # a level-limited product combined with its deeper ancestor (or the reverse): both readers are
    # opened with the common level limit (API only: the command line has no such option)
    limit = None
    if a.m.nlev != b.m.nlev:
        limit = min(a.m.nlev, b.m.nlev) - 1
        a = Item(a.path, a.m.restrict(a.m.fields, limit), a.origin)
        b = Item(b.path, b.m.restrict(b.m.fields, limit), b.origin)
    v1 = v2 = None
    if src.flag(f"s{step}.sel1", 3):
        idx = src.subset(f"s{step}.sel1.set", len(a.m.fields), min_size=1)
        v1 = [a.m.fields[i] for i in idx]
    f1 = list(a.m.fields) if v1 is None else v1
    cand2 = [f for f in b.m.fields if f not in f1]
    if not cand2:
        return None
    if src.flag(f"s{step}.sel2", 3):
        idx = src.subset(f"s{step}.sel2.set", len(cand2), min_size=1)
        v2 = [cand2[i] for i in idx]
    f2 = [f for f in (b.m.fields if v2 is None else v2) if f not in f1]
    out = os.path.join(ctx.scratch, f"p{step}_combined")
    use_cli = bool(src.draw(f"s{step}.cli", 0, 1)) and limit is None
    lk = {} if limit is None else {"limit_level": limit}
    s1 = None if v1 is None else " ".join(v1)
    if use_cli:
        argv = ["combine", "-p1", a.path, "-p2", b.path, "-o", out]
        if s1 is not None:
            argv += ["-v1", s1]
        if v2 is not None:
            argv += ["-v2", " ".join(v2)]
        o = run_tool(ctx, cli.main, cwd=ctx.scratch, argv=argv, label=f"step {step}: combine {argv[1:]}")
    else:
        o = run_tool(ctx, lambda: combine(PlotfileCooker(a.path, **lk), PlotfileCooker(b.path, **lk), pltout=out,
                                          vars1=s1, vars2=None if v2 is None else list(v2)),
                     cwd=ctx.scratch, label=f"step {step}: combine(#{k}, #{j}, v1={v1}, v2={v2}, limit={limit})")
        if limit is not None:
            ctx.stats["combine_with_level_limited_reader"] += 1
    expect = a.m.combine(b.m, f1, f2)
    return o, out, expect, true_minmax(expect), f"combine(#{k},#{j},{v1},{v2})", "combine"


def do_chef(ctx, src, items, k, step, kept_none=False):
    from amr_kitchen.chef.chef import Chef
    from amr_kitchen.chef import cli
    it = items[k]
    nf = len(it.m.fields)
    kind = src.choice(f"s{step}.recipe", ["lin", "two", "byname"])
    i = src.draw(f"s{step}.i", 0, nf - 1)
    j = src.draw(f"s{step}.j", 0, nf - 1)
    newnames = [f"n{step}a", f"n{step}b"] if kind == "two" else [f"n{step}a"]
    kept = []
    if not kept_none and src.flag(f"s{step}.kept"):
        idx = src.subset(f"s{step}.kept.set", nf, min_size=1)
        kept = [it.m.fields[x] for x in idx]
    serial = bool(src.draw(f"s{step}.serial", 0, 1))
    rdir = os.path.join(ctx.scratch, f"recipes{step}")
    os.makedirs(rdir, exist_ok=True)
    rec = os.path.join(rdir, "rec.py")
    with open(rec, "w") as f:
        f.write(RECIPE_SRC[kind].format(names=" ".join(newnames), i=i, j=j, fname=it.m.fields[i]))
    out = os.path.join(ctx.scratch, f"p{step}_cooked")
    ks = " ".join(kept) if kept else None
    use_cli = bool(src.draw(f"s{step}.cli", 0, 1))
    if use_cli:
        argv = ["chef", it.path, "-r", rec, "-o", out] + (["-k", ks] if ks else [])
        o = run_tool(ctx, cli.main, cwd=ctx.scratch, argv=argv, label=f"step {step}: chef {argv[1:]}")
    else:
        o = run_tool(ctx, lambda: Chef(it.path, recipe=rec, outfile=out, serial=serial, kept_fields=ks).cook(),
                     cwd=ctx.scratch, label=f"step {step}: Chef(#{k}, {kind}, kept={kept}, serial={serial})")
    kidx = [it.m.fields.index(f) for f in kept]

    def fn(lv, b, arr):
        return np.concatenate([arr[..., kidx], recipe_eval(kind, arr, i, j)], axis=-1)
    expect = it.m.with_fields(kept + newnames, fn)
    # field order between kept and new is not fixed by the statement: follow the output header
    if o.ok:
        try:
            h = parse_header(out)
            if sorted(h.fields) == sorted(expect.fields) and h.fields != expect.fields:
                order = [expect.fields.index(f) for f in h.fields]
                e2 = expect.copy_meta()
                e2.fields = list(h.fields)
                e2.data = [[a[..., order] for a in lv] for lv in expect.data]
                expect = e2
        except (FormatError, OSError, ValueError, IndexError):
            pass
    return o, out, expect, true_minmax(expect), f"chef(#{k},{kind},{kept})", "chef"


def run_case(ctx):
    src = ctx.src
    common.draw_env(ctx)
    ctx.fork_mode = bool(src.draw("pool.fork", 0, 3) == 3)
    items = []
    start = src.choice("start", ["one", "two", "chk"])
    if start == "chk":
        from .c17 import Chk2pltT
        t = Chk2pltT()
        t.draw(ctx, src)
        t.opts.update(in_form="abs", cwd="work", out="abs", cli=False)
        root = os.path.join(ctx.scratch, "c2p")
        t.prepare_root(root)
        o = t.call(ctx, root)
        sig = {"property": ID, "op": "chk2plt", "step": 0}
        if not o.ok:
            raise Violation({**sig, "oracle": "op-raises", **o.exc_sig()}, f"chk2plt raised {o.exc!r}; {t.describe()}")
        expect = t.expected()
        common.check_output_plotfile(ctx, sig, t.out_abs, expect, minmax="true", dx_rtol=1e-12, bounds_rtol=1e-12,
                                     rtol=[1e-14 if 4 <= k < 4 + t.c.nsp else 0 for k in range(len(expect.fields))] if t.floor else None)
        # continue from what is on disk (values may differ in the last bit from the harness' division)
        from ..reader import PlotOnDisk
        p = PlotOnDisk(t.out_abs)
        m = expect.copy_meta()
        m.dx = [list(d) for d in p.dx]
        emap = [{box: b for b, box in enumerate(expect.boxes[lv])} for lv in range(expect.nlev)]
        m.boxes = [list(p.cells[lv].indexes) for lv in range(expect.nlev)]
        m.data = [[np.array(p.data[lv][ob][3]) for ob in range(len(p.cells[lv].indexes))] for lv in range(expect.nlev)]
        m.time = p.time
        m.geo_low, m.geo_high = list(p.geo_low), list(p.geo_high)
        m.phys = [[list(bx) for bx in p.boxes_phys[lv]] for lv in range(expect.nlev)]
        items.append(Item(t.out_abs, m, "chk2plt"))
    else:
        m1 = world.gen_mesh(src, tag="w", force_3d=True, max_boxes=12)
        m1.fields = world.gen_fields(src, tag="w", nmax=4)
        world.gen_layout(src, m1, tag="w")
        world.fill_random(m1, src.draw("w.dataseed", 0, 999999))
        world.gen_cosmetics(src, m1, "w")
        p1 = os.path.join(ctx.scratch, "plt_a")
        world.write_plotfile(m1, p1)
        items.append(Item(p1, m1, "generated"))
        if start == "two":
            m2 = m1.copy_meta()
            m2.fields = [f"g_{k}" for k in range(src.draw("w2.nf", 1, 3))]
            world.gen_layout(src, m2, tag="w2")
            world.fill_random(m2, src.draw("w2.dataseed", 0, 999999))
            world.gen_cosmetics(src, m2, "w2")
            p2 = os.path.join(ctx.scratch, "plt_b")
            world.write_plotfile(m2, p2)
            items.append(Item(p2, m2, "generated"))
    nops = src.draw("nops", 1, 4)
    ops_done = []
    kinds = []
    for step in range(1, nops + 1):
        kind = src.choice(f"s{step}.op", ["colander", "chef", "combine"])
        k = src.draw(f"s{step}.input", 0, len(items) - 1)
        k = len(items) - 1 - k       # prefer recent outputs (0 = the latest)
        res = None
        if kind == "combine":
            res = do_combine(ctx, src, items, k, step)
            if res is None:
                kind = "chef"
        if kind == "chef":
            res = do_chef(ctx, src, items, k, step)
        elif kind == "colander":
            res = do_colander(ctx, src, items, k, step)
        o, out, expect, mm, desc, kname = res
        sig = {"property": ID, "op": kname, "step": min(step, 2), "after": kinds[-1] if kinds else start}
        if not o.ok:
            raise Violation({**sig, "oracle": "op-raises", **o.exc_sig()},
                            f"step {step} {desc} raised {o.exc!r} on input written by {items[k].origin}; history {ops_done}")
        check_step(ctx, sig, out, expect, mm)
        items.append(Item(out, expect, kname))
        ops_done.append(desc)
        kinds.append(kname)
        ctx.stats[f"op.{kname}"] += 1
    ctx.stats["seq." + ">".join(kinds[:2])] += 1
    # the two named identities, exercised explicitly on the last product
    last = len(items) - 1
    ident = src.draw("identity", 0, 2)
    if ident == 1:
        o, out, expect, mm, desc, _ = do_colander(ctx, src, items, last, 90, final_all=True)
        sig = {"property": ID, "op": "strain-all-identity", "after": kinds[-1]}
        if not o.ok:
            raise Violation({**sig, "oracle": "op-raises", **o.exc_sig()}, f"strain-all raised {o.exc!r}; history {ops_done}")
        check_step(ctx, sig, out, items[last].m, true_minmax(items[last].m))
        ctx.stats["identity.strain_all"] += 1
    elif ident == 2:
        o, out, expect, mm, desc, _ = do_chef(ctx, src, items, last, 91, kept_none=True)
        sig = {"property": ID, "op": "cook-combine-back", "after": kinds[-1]}
        if not o.ok:
            raise Violation({**sig, "oracle": "op-raises", **o.exc_sig()}, f"final cook raised {o.exc!r}; history {ops_done}")
        check_step(ctx, sig, out, expect, mm)
        items.append(Item(out, expect, "chef"))
        from amr_kitchen import PlotfileCooker
        from amr_kitchen.combine import combine
        out2 = os.path.join(ctx.scratch, "p92_back")
        o = run_tool(ctx, lambda: combine(PlotfileCooker(items[last].path), PlotfileCooker(out), pltout=out2),
                     cwd=ctx.scratch, label="combine(original, cooked)")
        if not o.ok:
            raise Violation({**sig, "oracle": "op-raises", **o.exc_sig()},
                            f"combining the cooked field back raised {o.exc!r}; history {ops_done}")
        back = items[last].m.combine(expect, list(items[last].m.fields), list(expect.fields))
        check_step(ctx, sig, out2, back, true_minmax(back))
        ctx.stats["identity.cook_combine_back"] += 1
    if len(kinds) >= 2:
        ctx.nontrivial = True
    ctx.case_key = common.key_of([start, items[0].m.summary(), ops_done, ident, ctx.fork_mode,
                                  sorted(map(str, ctx.sigs))])
    ctx.sample = {"start": start, "world": items[0].m.summary(), "history": ops_done,
                  "identity": ["none", "strain-all", "cook-combine-back"][ident], "fork_pool": ctx.fork_mode}


def evidence_extra(stats):
    return {"operations": {k[3:]: v for k, v in stats.items() if k.startswith("op.")},
            "length2_prefixes": {k[4:]: v for k, v in stats.items() if k.startswith("seq.")},
            "identities": {k[9:]: v for k, v in stats.items() if k.startswith("identity.")},
            "fork_units_run": stats.get("fork.units", 0)}
