"""C10 - whip's uniform grid is the covering grid of the chosen field."""
import os

import numpy as np

from .. import world
from ..choice import RandomSource
from ..core import Violation, run_tool
from . import common
from .c12 import Scripted, variants_for

ID = "C10"
LEVEL = "exploration"
BUDGET = {"quick": 8000, "thorough": 160000}
WALL_CAP = {"quick": 600, "thorough": 5400}
RULE = ("case = generated 3D plotfile (nested partially refined levels, boxes scattered over 1-4 files per level in any "
        "on-disk order, NaN/inf/denormal payloads in a share of cases) x field x dtype in {float64, float32} x "
        "--limit_level in {absent, 0..finest}, run through the whip entry point (in-process main(), -y, explicit -o); "
        "schedules: the FIFO one-worker run, then for EACH per-level imap_unordered call with <= 4 file tasks ALL "
        "feasible completion orders for W in {1,2,n,16} (the other calls FIFO), plus drawn random schedules; oracle: "
        "the saved .npy has the requested dtype and is bit-equal to the model's covering grid at the limit level "
        "(coarser cells replicated) cast to that dtype, axes (x,y,z), in every schedule; fault arm (a sixth of the cases, "
        "after the fault-free runs): the first open of one binary file of a selected level fails once with EIO - whip "
        "may give up, a grid it saves must still be the covering grid. non-trivial = some level has "
        ">= 2 binary files (>= 2 unordered tasks) or >= 2 levels are selected; distinct = hash(world, field, dtype, "
        "limit, schedules)")
ASSUMPTIONS = ["independent model is the oracle", "the default output name is C13's business (explicit -o here)"]


def run_whip(ctx, path, var, dtype, limit, out, pool_src):
    from amr_kitchen.whip import cli
    argv = ["whip", "-y", "-v", var, "-d", dtype, "-o", out]
    if limit is not None:
        argv += ["-l", str(limit)]
    argv.append(path)
    ctx.pool_src = pool_src
    ctx.pool_seq = 0
    ctx.reset_pools()
    try:
        o = run_tool(ctx, cli.main, argv=argv, label=f"whip {argv[1:]}")
    finally:
        ctx.pool_src = None
    calls = []
    for p in ctx.pools:
        for c in p.calls:
            calls.append({"pool": p.id, "call": c.id, "kind": c.kind, "units": len(c.units),
                          "items": sum(len(u) for u in c.units if isinstance(u, list)), "site": c.site, "W": p.W,
                          "order": list(c.completion)})
    ctx.reset_pools()
    return o, calls


def run_case(ctx):
    src = ctx.src
    common.draw_env(ctx)
    common.prelude(ctx)
    m = world.gen_world(src, force_3d=True, special_ok=True, lowprec_ok=True)
    var = src.choice("var", m.fields)
    path, hcwd, _abs, hmode = common.history_materialise(
        ctx, m, lambda p: run_whip(ctx, p, var, "float64", None, os.path.join(ctx.scratch, "warm_ugrid"), Scripted({})))
    dtype = src.choice("dtype", ["float64", "float32"])
    limit = src.draw("limit.v", 0, m.nlev - 1) if src.flag("limit") else None
    L = m.nlev - 1 if limit is None else limit
    sig = {"property": ID, "dtype": dtype, "limit": "none" if limit is None else ("finest" if limit == m.nlev - 1 else "lower")}
    with np.errstate(all="ignore"):
        want = m.covering_grid(m.fields.index(var), L).astype(dtype)
    what = f"var={var} dtype={dtype} limit={limit} world={m.summary()}"

    def check(o, out, desc):
        if not o.ok:
            raise Violation({**sig, "oracle": "whip-raises", **o.exc_sig()}, f"whip raised {o.exc!r} ({desc}); {what}")
        f = out if out.endswith(".npy") else out + ".npy"
        try:
            got = np.load(f)
        except (OSError, ValueError) as e:
            raise Violation({**sig, "oracle": "output-missing"}, f"cannot load {ctx.rel(f)}: {e} ({desc}); {what}")
        if got.dtype != np.dtype(dtype):
            raise Violation({**sig, "oracle": "dtype"}, f"saved dtype {got.dtype}, requested {dtype} ({desc}); {what}")
        if got.shape != want.shape:
            raise Violation({**sig, "oracle": "shape"},
                            f"saved grid has shape {got.shape}, the covering grid at level {L} has {want.shape} ({desc}); {what}")
        if not np.array_equal(got.view(np.uint8), want.view(np.uint8)):
            nbad = int(np.sum(got.view(f"u{got.itemsize}") != want.view(f"u{want.itemsize}")))
            raise Violation({**sig, "oracle": "covering-grid", "schedule": desc.split()[0]},
                            f"saved grid differs from the covering grid in {nbad} of {want.size} cells ({desc}); {what}")
        os.remove(f)

    out = os.path.join(ctx.scratch, "ugrid0")
    if src.flag("hist.preexisting_output", 4):
        # the output name already holds the product of an earlier run (another field and/or data type, same
        # grid shape): it has to be replaced by what is asked for now
        var0 = src.choice("hist.var", m.fields)
        dtype0 = src.choice("hist.dtype", ["float32", "float64"])
        run_whip(ctx, path, var0, dtype0, limit, out, Scripted({}))
        ctx.probe("history.output_preexisting")
    o, calls = run_whip(ctx, path, var, dtype, limit, out, Scripted({}))
    check(o, out, "FIFO schedule")
    variants = variants_for(calls, ctx)
    cap = 30 if ctx.tier == "quick" else 300
    if len(variants) > cap:
        import random
        rnd = random.Random(src.draw("variants.subset", 0, 9999))
        variants = [variants[i] for i in sorted(rnd.sample(range(len(variants)), cap))]
        ctx.probe("enumeration_capped")
    elif variants:
        ctx.probe("enumeration_complete")
    for k, (desc, script) in enumerate(variants):
        out = os.path.join(ctx.scratch, f"ugrid_v{k}")
        o, _ = run_whip(ctx, path, var, dtype, limit, out, Scripted(script))
        ctx.stats["enumerated_variants"] += 1
        check(o, out, "enumerated " + desc)
    for j in range(src.draw("nrandom", 1, 2)):
        seed = src.draw(f"rand{j}.seed", 1, 99999)
        ps = RandomSource(seed)
        ps.forced_fn = lambda label, lo, hi: 3 if label.endswith(".style") and hi >= 3 else None
        out = os.path.join(ctx.scratch, f"ugrid_r{j}")
        o, cs = run_whip(ctx, path, var, dtype, limit, out, ps)
        ctx.stats["random_variants"] += 1
        check(o, out, f"random schedule seed={seed} {[(c['W'], c['order']) for c in cs]}")
    if src.flag("read_fault", 6):
        # fault-injecting configuration, run apart from the fault-free ones above: the first open of one binary
        # file of a selected level fails once with EIO (a transient error).  whip may give up - or carry on,
        # but then what it saves must still be the covering grid, cell for cell
        lvf = src.draw("read_fault.lv", 0, L)
        names = sorted({f for f, _ in m.layout[lvf]})
        fname = names[src.draw("read_fault.file", 0, len(names) - 1)]
        fpath = os.path.join(_abs, f"Level_{lvf}", fname)
        out = os.path.join(ctx.scratch, "ugrid_f")
        ctx.read_fault_paths = {fpath: "EIO-ONCE"}
        nf0 = len(ctx.faults_fired)
        try:
            o, _ = run_whip(ctx, path, var, dtype, limit, out, Scripted({}))
        finally:
            ctx.read_fault_paths = {}
        if len(ctx.faults_fired) > nf0:
            ctx.probe("transient_read_fault_fired")
            if o.ok or os.path.exists(out + ".npy"):
                if not os.path.exists(out + ".npy"):
                    raise Violation({**sig, "oracle": "fault-swallowed-no-output"},
                                    f"whip returned normally after a transient EIO on {fname} of level {lvf} and saved nothing; {what}")
                o_ok = o
                o_ok.ok = True
                check(o_ok, out, f"transient-EIO on the first open of Level_{lvf}/{fname}")
            else:
                ctx.probe("transient_read_fault_reported")
    if L >= 1 or any(len({f for f, _ in lay}) >= 2 for lay in m.layout[:L + 1]):
        ctx.nontrivial = True
    ctx.case_key = common.key_of([m.summary(), var, dtype, limit, sorted(map(str, ctx.sigs))])
    ctx.sample = {"world": m.summary(), "var": var, "dtype": dtype, "limit": limit,
                  "calls": [{"n": c["items"]} for c in calls], "enumerated_variants": len(variants)}


def evidence_extra(stats):
    return {"enumerated_variants": stats.get("enumerated_variants", 0), "random_variants": stats.get("random_variants", 0)}
