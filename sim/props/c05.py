"""C05 - colander output holds exactly the kept fields and levels, bit for bit."""
import os

from .. import world
from ..core import Violation, run_tool
from . import common

ID = "C05"
LEVEL = "exploration"
BUDGET = {"quick": 16000, "thorough": 320000}
WALL_CAP = {"quick": 600, "thorough": 5400}
RULE = ("case = generated 2D/3D plotfile x ordered variable selection (known names in any order, optionally "
        "unknown names, or 'all') x level limit x {API, CLI} x {relative, absolute} paths, strained under a drawn "
        "SimPool schedule with poisoned np.empty, in 1/6 of the cases with one write cut short or torn (then either "
        "the failure is reported or the output is judged like any other); output parsed by the independent reader and tasted; "
        "non-trivial = some level has >=2 binary files or a non-monotone layout, or fields are dropped/reordered, "
        "or a level is dropped; distinct = hash(world, selection, limit, entry form, schedules)")
ASSUMPTIONS = ["independent reader/model is the oracle", "inputs are what AMReX writes (dense packing, exact FAB "
               "descriptor, true min/max in %.16e)"]


def draw_selection(src, m, tag="sel"):
    nf = len(m.fields)
    if src.flag(f"{tag}.all", 4):
        return ["all"], list(m.fields)
    idx = src.subset(f"{tag}.set", nf, min_size=1)
    order = src.perm(f"{tag}.order", len(idx)) if len(idx) <= 8 else list(range(len(idx)))
    names = [m.fields[idx[i]] for i in order]
    req = list(names)
    if src.flag(f"{tag}.unknown", 4):
        pos = src.draw(f"{tag}.unkpos", 0, len(req))
        req.insert(pos, "not_a_field")
    return req, names


def run_colander(ctx, m, path, req, limit, out_arg, cwd, cli, in_arg):
    if cli:
        from amr_kitchen.colander import cli as ccli
        argv = ["colander", in_arg, "-v", *req, "-o", out_arg]
        if limit is not None:
            argv += ["-l", str(limit)]
        return run_tool(ctx, ccli.main, cwd=cwd, argv=argv, label=f"colander CLI {argv[1:]}")
    from amr_kitchen.colander.colander import Colander

    def go():
        c = Colander(plotfile=in_arg, limit_level=limit, output=out_arg, variables=list(req))
        c.strain()
    return run_tool(ctx, go, cwd=cwd, label=f"Colander({in_arg}, vars={req}, limit={limit}, out={out_arg})")


def run_case(ctx):
    src = ctx.src
    common.draw_env(ctx)
    common.prelude(ctx)
    m = world.gen_world(src, scale=("hugebox", "manyboxes", "farcorner", "manyfields"), lowprec_ok=True)
    req, names = draw_selection(src, m)
    os.makedirs(os.path.join(ctx.scratch, "work"))
    # (in half of the history cases the earlier run wrote to the very output directory used below)
    warm_out = [os.path.join(ctx.scratch, "work", "out_plt") if src.flag("hist.same_output") else
                os.path.join(ctx.scratch, "warm_out")]

    def warm(p):
        from amr_kitchen.colander.colander import Colander
        run_tool(ctx, lambda: Colander(plotfile=p, output=warm_out[0], variables=list(req)).strain())
    path_arg, hcwd, path, hmode = common.history_materialise(ctx, m, warm)
    limit = None
    if src.flag("limit"):
        limit = src.draw("limit.v", 0, m.nlev - 1)
    cli = bool(src.draw("cli", 0, 1))
    rel_out = bool(src.draw("rel_out", 0, 1))
    rel_in = bool(src.draw("rel_in", 0, 1))
    work = os.path.join(ctx.scratch, "work")
    out_abs = os.path.join(work, "out_plt")
    out_arg = "out_plt" if rel_out else out_abs
    in_arg = os.path.relpath(path, work) if rel_in else path
    if hmode == "rel-cwd":
        # the history fixes the invocation form: relative name from the second run directory
        in_arg, work, out_arg = path_arg, hcwd, out_abs
    # in a share of the cases one write of the run is cut short / torn (disk filling up): the run may fail
    # visibly, but whenever colander RETURNS NORMALLY its output has to be the complete, exact one
    fault = None
    if src.flag("fault", 6):
        fault = (src.draw("fault.site", 0, 47), src.choice("fault.kind", ["SHORT", "TORN"]),
                 bool(src.draw("fault.sticky", 0, 1)))
        ctx.fault_plan = {fault[0]: fault[1]}
        ctx.fault_sticky = fault[2]
        ctx.sticky_paths, ctx.sticky_all, ctx.site_counter, ctx.faults_fired = set(), False, 0, []
    try:
        o = run_colander(ctx, m, path, req, limit, out_arg, work, cli, in_arg)
    finally:
        ctx.fault_plan = {}
        ctx.fault_sticky = False
    sig = {"property": ID, "entry": "cli" if cli else "api", "ndims": m.ndims}
    if fault and ctx.faults_fired:
        ctx.probe("write_fault_fired")
        if o.failed_visibly():
            ctx.probe("write_fault_reported")
            ctx.nontrivial = True
            ctx.case_key = common.key_of([m.summary(), req, limit, cli, fault])
            ctx.sample = {"world": m.summary(), "variables": req, "fault": list(fault), "outcome": "reported"}
            return
        sig["after_fault"] = fault[1]
    if not o.ok:
        raise Violation({**sig, "oracle": "strain-raises", **o.exc_sig()},
                        f"colander raised {o.exc!r} on a well-formed plotfile, vars={req}, limit={limit}")
    expect = m.restrict(names, limit)
    mins_maxs = {}
    idx = [m.fields.index(f) for f in names]
    for lv in range(expect.nlev):
        mins, maxs = m.minmax_rows(lv)
        mins_maxs[lv] = ([r[idx] for r in mins], [r[idx] for r in maxs])
    # (geometry printed with 6 digits does not satisfy taste's box-coordinate test to begin with: its
    # tolerance is absolute near 0; that is a statement about the input, not about colander)
    common.check_output_plotfile(ctx, sig, out_abs, expect, minmax=mins_maxs,
                                 taste_coords=not getattr(m, "lowprec", False))
    multi = any(len({f for f, _ in lay}) >= 2 for lay in m.layout) or not m.is_monotone()
    if multi or names != m.fields or (limit is not None and limit < m.nlev - 1):
        ctx.nontrivial = True
    ctx.case_key = common.key_of([m.summary(), req, limit, cli, rel_out, rel_in, sorted(map(str, ctx.sigs))])
    ctx.sample = {"world": m.summary(), "variables": req, "limit": limit, "entry": "cli" if cli else "api",
                  "schedules": ctx.describe["schedules"][:3]}
