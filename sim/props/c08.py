"""C08 - mandoline 2D flattening equals the finest-level covering grid exactly."""
import os

import numpy as np

from .. import world
from ..core import Violation, run_tool
from . import common

ID = "C08"
LEVEL = "exploration"
BUDGET = {"quick": 32000, "thorough": 640000}
WALL_CAP = {"quick": 600, "thorough": 5400}
RULE = ("case = generated 2D plotfile (rectangular domains of >= 4 cells per direction, non-zero origin, anisotropic "
        "cells, non-square boxes, nested partially refined levels, scattered/non-monotone layout, unique payload per "
        "cell) x field list (names in any order, 'grid_level', 'all') x level limit x {serial, pool under a drawn "
        "SimPool schedule} x {return, array(.npz)}; each case is executed under TWO different np.empty poisons and in "
        "serial and pooled mode; oracle: out[name][iy, ix] is bit-equal to the model's covering grid at the limit level "
        "(coarser cells replicated), grid_level equals the covering level, x/y equal the cell-centre grids, the results "
        "under both poisons and in both modes are bit-identical. non-trivial = >=2 levels selected or >=2 boxes at a "
        "level; distinct = hash(world, fields, limit, schedules)")
ASSUMPTIONS = ["domains have >= 4 cells per direction (format_array_output reads x_grid[2])",
               "independent model is the oracle"]


def slice_call(ctx, path, fields, limit, serial, fformat="return", outfile=None, normal=None, pos=None, label="",
               pre=()):
    """pre: earlier slices (normal, pos) made with the SAME Mandoline object (their results are dropped)."""
    from amr_kitchen.mandoline.mandoline import Mandoline

    def go():
        md = Mandoline(path, fields=list(fields), limit_level=limit, serial=serial, verbose=0)
        for (n0, p0) in pre:
            md.slice(normal=n0, pos=p0, fformat="return")
        return md.slice(normal=normal, pos=pos, outfile=outfile, fformat=fformat)
    o = run_tool(ctx, go, label=label or f"Mandoline({fields},L={limit},serial={serial})" +
                 "".join(f".slice({a},{b})" for a, b in pre) + f".slice({normal},{pos},{fformat})")
    if o.ok and fformat == "array":
        with np.load(outfile + ".npz", allow_pickle=True) as z:
            o.value = {k: z[k] for k in z.files}
    return o


def same_dict(a, b):
    if set(a) != set(b):
        return f"keys differ: {sorted(a)} vs {sorted(b)}"
    for k in a:
        x, y = np.asarray(a[k]), np.asarray(b[k])
        if x.dtype.kind in "fc" and y.dtype.kind in "fc":
            if not world.same_values(x, y):
                return f"entry {k!r} differs bitwise"
        elif x.shape != y.shape or not np.array_equal(x, y):
            return f"entry {k!r} differs"
    return None


def draw_fields(src, m, extra=()):
    nf = len(m.fields)
    if src.flag("fields.all", 5):
        return ["all"], list(m.fields) + ["grid_level"]
    idx = src.subset("fields.set", nf, min_size=0)
    order = src.perm("fields.order", len(idx)) if 1 < len(idx) <= 8 else list(range(len(idx)))
    names = [m.fields[idx[i]] for i in order]
    gl = src.flag("fields.grid_level", 3) or not names
    req = list(names)
    if gl:
        req.insert(src.draw("fields.glpos", 0, len(req)), "grid_level")
    return req, names + (["grid_level"] if gl else [])


def run_case(ctx):
    src = ctx.src
    common.draw_env(ctx)
    common.prelude(ctx)
    m = world.gen_world(src, force_2d=True, special_ok=False, min_cells0=4)
    req, outnames = draw_fields(src, m)
    path, hcwd, _abs, hmode = common.history_materialise(
        ctx, m, lambda p: [slice_call(ctx, p, req, None, ser, "return") for ser in (True, False)])
    limit = src.draw("limit.v", 0, m.nlev - 1) if src.flag("limit") else None
    L = m.nlev - 1 if limit is None else limit
    fformat = src.choice("fformat", ["return", "array"])
    sig = {"property": ID, "fformat": fformat}
    pre = ((None, None),) if src.flag("object_reuse", 4) else ()      # the same object flattened before
    results = {}
    p0 = ctx.poison
    for tag, serial, poison in (("pool/poisonA", False, p0), ("pool/poisonB", False, (p0 + 1) % 5),
                                ("serial/poisonA", True, p0)):
        ctx.poison = poison
        outfile = os.path.join(ctx.scratch, "out_" + tag.replace("/", "_"))
        o = slice_call(ctx, path, req, limit, serial, fformat, outfile, pre=pre)
        if not o.ok:
            raise Violation({**sig, "oracle": "slice-raises", **o.exc_sig()},
                            f"flattening ({tag}) raised {o.exc!r}; fields={req} limit={limit} world={m.summary()}")
        results[tag] = o.value
    ctx.poison = p0
    out = results["pool/poisonA"]
    d = same_dict(out, results["pool/poisonB"])
    if d:
        raise Violation({**sig, "oracle": "poison-differential"},
                        f"result depends on uninitialised memory: {d}; fields={req} limit={limit} world={m.summary()}")
    d = same_dict(out, results["serial/poisonA"])
    if d:
        raise Violation({**sig, "oracle": "serial-vs-pool"}, f"serial and pooled results differ: {d}; fields={req}")
    for name in outnames:
        if name not in out:
            raise Violation({**sig, "oracle": "missing-field"}, f"{name!r} missing from output keys {sorted(out)}")
        got = np.asarray(out[name])
        if name == "grid_level":
            _, lvl = m.covering_grid(None, L, with_level=True)
            want = lvl.T.astype(float)
            if got.shape != want.shape or not np.array_equal(got, want):
                raise Violation({**sig, "oracle": "grid_level"},
                                f"grid_level differs from the covering level map (shape {got.shape} vs {want.shape}); "
                                f"limit={limit} world={m.summary()}")
        else:
            want = m.covering_grid(m.fields.index(name), L).T
            if not world.same_bits(got, want):
                hint = "transposed" if got.shape == want.T.shape and world.same_bits(got, want.T) else "values"
                raise Violation({**sig, "oracle": "covering-grid", "hint": hint},
                                f"{name!r} differs from the covering grid at level {L} ({hint}; shape {got.shape} vs "
                                f"{want.shape}); fields={req} world={m.summary()}")
    for key, d_ in (("x", 0), ("y", 1)):
        want = m.cell_centers(L, d_)
        got = np.asarray(out[key])
        if got.shape != want.shape or not np.allclose(got, want, rtol=1e-12, atol=1e-12 * abs(m.geo_high[d_] - m.geo_low[d_])):
            raise Violation({**sig, "oracle": "coordinates"}, f"{key} grid {got} != cell centres {want}")
    if L >= 1 or any(len(b) >= 2 for b in m.boxes[:L + 1]):
        ctx.nontrivial = True
    ctx.case_key = common.key_of([m.summary(), req, limit, fformat, sorted(map(str, ctx.sigs))])
    ctx.sample = {"world": m.summary(), "fields": req, "limit": limit, "fformat": fformat,
                  "executions": list(results)}
