"""C03 - taste accepts every well-formed plotfile under every option combination."""
import itertools

import numpy as np

from .. import world
from ..core import Violation, run_tool
from . import common

ID = "C03"
LEVEL = "exploration"
BUDGET = {"quick": 1000, "thorough": 20000}
WALL_CAP = {"quick": 600, "thorough": 5400}
RULE = ("case = generated well-formed 2D/3D plotfile (scattered/non-monotone layouts, stale-level and long "
        "refinement-ratio header variants, special payloads only when the options do not read data); per world ALL 16 "
        "option combinations (binary_headers, binary_shape, binary_data, boxes_coordinates) x every level limit in "
        "{None, 0..finest} x {failing, non-failing} are run (enumerated, not sampled), each under its own drawn "
        "SimPool schedule; oracle: the constructor raises nothing and bool() is True. evaluations = cases (worlds); "
        "Taster runs are counted separately; non-trivial = world has >=2 binary files at some level or a non-monotone "
        "layout or >1 level; distinct = hash(world, schedules)")
ASSUMPTIONS = ["well-formed = what AMReX writes: dense packing from offset 0, canonical FAB descriptor, min/max "
               "tables equal to the true extrema in %.16e"]


def run_case(ctx):
    from amr_kitchen.taste import Taster
    src = ctx.src
    common.draw_env(ctx)
    common.prelude(ctx)
    data_read = True
    m = world.gen_world(src, special_ok=False, max_boxes=12, scale=("manyboxes", "farcorner", "manyfields", "longdomain", "manyfiles"), scale_rate=40)
    special = src.flag("special_payload", 4)
    nanskip = False
    if special:
        world.fill_random(m, src.draw("special.seed", 0, 99999), special=True)
        nanskip = bool(src.draw("special.nanskip", 0, 1))
        if nanskip:
            # the writer's running `<`/`>` comparisons skip NaN cells unless the first cell is one: tables hold
            # the extrema of the remaining values, which is the form the data option can be asked about
            m.nanskip = True
            for lvd in m.data:
                for arr in lvd:
                    first = arr[(0,) * (arr.ndim - 1)]
                    first[np.isnan(first)] = 1.0
        # (otherwise NaN/inf payloads with NaN in the tables: only option sets that do not read the data)
    from amr_kitchen.taste import Taster as _T
    path, hcwd, _abs, hmode = common.history_materialise(
        ctx, m, lambda p: run_tool(ctx, lambda: bool(_T(p, nofail=True, verbose=0, binary_data=True, boxes_coordinates=True))))
    limits = [None] + list(range(m.nlev))
    for (bh, bs, bd, bc) in itertools.product((True, False), repeat=4):
        if bd and special and not nanskip:
            continue
        for limit in limits:
            for nofail in (False, True):
                kw = dict(binary_headers=bh, binary_shape=bs, binary_data=bd, boxes_coordinates=bc,
                          nofail=nofail, verbose=0)
                if limit is not None:
                    kw["limit_level"] = limit
                o = run_tool(ctx, lambda: bool(Taster(path, **kw)))
                ctx.stats["taste_runs"] += 1
                if hmode == "none":
                    ctx.reset_pools()
                sig = {"property": ID, "binary_data": bd, "binary_headers": bh, "binary_shape": bs,
                       "boxes_coordinates": bc, "nofail": nofail}
                if not o.ok:
                    raise Violation({**sig, "oracle": "raises", **o.exc_sig()},
                                    f"Taster({kw}) raised {o.exc!r} on a well-formed plotfile {m.summary()}")
                if o.value is not True:
                    raise Violation({**sig, "oracle": "not-good"},
                                    f"Taster({kw}) evaluates {o.value!r} on a well-formed plotfile {m.summary()}; "
                                    f"output: {o.out[-400:]}")
    if m.nlev > 1 or not m.is_monotone() or any(len({f for f, _ in lay}) >= 2 for lay in m.layout):
        ctx.nontrivial = True
    ctx.case_key = common.key_of([m.summary(), special, sorted(map(str, ctx.sigs))[:50]])
    ctx.sample = {"world": m.summary(), "special_payload": bool(special),
                  "option_sets": 16 if not special else 8, "limits": [str(l) for l in limits]}


def evidence_extra(stats):
    return {"taster_runs": stats.get("taste_runs", 0)}
