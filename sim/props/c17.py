"""C17 - chk2plt carries the checkpoint's interior state into a valid plotfile."""
import os

import numpy as np

from .. import world, core
from ..core import Violation, run_tool
from ..choice import RandomSource
from ..world import PlotModel, fab_header, fmt_idx, fmt_row, g17
from . import common, tools

ID = "C17"
LEVEL = "exploration"
BUDGET = {"quick": 24000, "thorough": 480000}
WALL_CAP = {"quick": 600, "thorough": 5400}
RULE = ("case = synthetic PeleLMeX checkpoint in the format of test_assets/example_chk_3d (1..3 levels, anisotropic "
        "domain/cells, non-zero origin, 1..3 ghost cells on the state, 1..4 species, boxes of state/gradp/I_R/divU/p "
        "spread over several files with independent, possibly non-monotone layouts per subset, integer-valued and "
        "fractional times) x all 8 {gradp, reactions, flooring} option sets x species source (reference plotfile "
        "header or list) x {explicit, default} output x {API, CLI}, converted under a drawn SimPool schedule with "
        "poisoned np.empty; oracle: independent parse of the output: fields as stated, levels/boxes/time/geometry of "
        "the checkpoint, every box = interior cells of state (ghosts stripped; Y/sum(Y) when flooring) followed by "
        "gradp / I_R when requested, min/max rows = extrema of the written data, taste accepts incl. box coordinates, "
        "checkpoint tree snapshot unchanged. non-trivial = >=2 state files at a level or non-monotone/independent "
        "subset layouts or >1 level; distinct = hash(checkpoint summary, options, schedules)")
ASSUMPTIONS = ["the checkpoint layout is the one observed in the repository's example checkpoint",
               "independent reader/model is the oracle"]

SPECIES = ["H2", "O2", "N2", "H2O", "CH4", "CO2"]


class ChkModel:
    def __init__(self):
        self.mesh = None          # PlotModel used for mesh/geometry only
        self.nsp = 1
        self.ng = 3
        self.time = 0.5
        self.step = 5
        self.state = []           # [lv][b] (nx+2g,ny+2g,nz+2g,nsp+7)
        self.gradp = []
        self.I_R = []
        self.layouts = {}         # subset -> [lv] -> [(file, rank)]

    def summary(self):
        s = self.mesh.summary()
        s.pop("fields", None)
        s.update(nsp=self.nsp, ng=self.ng, time=self.time,
                 files={k: [sorted({f for f, _ in lay}) for lay in v] for k, v in self.layouts.items()
                        if k in ("state", "gradp", "I_R")})
        return s


def gen_chk(src):
    c = ChkModel()
    big = src.flag("k.bigbox", 100)
    if big:
        # scale class: one 32^3 box, 3 ghost cells, 10-11 state components: a state FAB of more than 4 MiB
        m = world.gen_scale_world(src, "box32", tag="k")
    else:
        m = world.gen_mesh(src, tag="k", force_3d=True, max_levels=3, max_blocks0=2, bfs=(2, 4), max_boxes=10)
    c.mesh = m
    c.nsp = src.draw("k.nsp", 3 if big else 1, 4)
    c.ng = src.draw("k.ng", 3 if big else 1, 3)
    c.time = src.choice("k.time", [0.49947225144556617, 1.6457727058794072e-11, 0.0, 2.0, 1234.5678])
    c.step = src.choice("k.step", [5, 0, 120])
    seed = src.draw("k.dataseed", 0, 999999)
    rng = np.random.default_rng(seed)
    nst = c.nsp + 7
    for lv in range(m.nlev):
        st, gp, ir = [], [], []
        for b in range(len(m.boxes[lv])):
            shp = m.box_shape(lv, b)
            g = c.ng
            a = rng.standard_normal(tuple(s + 2 * g for s in shp) + (nst,))
            a[..., 4:4 + c.nsp] = rng.uniform(0.05, 1.0, a.shape[:-1] + (c.nsp,))
            st.append(a)
            gp.append(rng.standard_normal(shp + (3,)))
            ir.append(rng.standard_normal(shp + (c.nsp,)))
        c.state.append(st)
        c.gradp.append(gp)
        c.I_R.append(ir)
    for sub in ("state", "gradp", "I_R", "divU", "p"):
        tmp = m.copy_meta()
        world.gen_layout(src, tmp, tag=f"k.{sub}", max_files=3,
                         force_style=None if sub in ("state", "gradp", "I_R") else 0)
        c.layouts[sub] = [[(f.replace("Cell", sub), r) for f, r in lay] for lay in tmp.layout]
    return c


def write_chk(c, path):
    m = c.mesh
    os.makedirs(path)
    with open(os.path.join(path, "Header"), "w") as h:
        h.write("Checkpoint version: 1\n")
        h.write(f"{m.nlev - 1}\n")
        h.write(f"{c.step}\n")
        h.write(g17(c.time) + "\n")
        h.write("3.946824488833992e-12\n")
        h.write("3.5880222625763559e-12\n")
        h.write(" ".join(g17(v) for v in m.geo_low) + " \n")
        h.write(" ".join(g17(v) for v in m.geo_high) + " \n")
        for lv in range(m.nlev):
            h.write(f"({len(m.boxes[lv])} 0\n")
            for lo, hi in m.boxes[lv]:
                h.write("(" + fmt_idx(lo) + " " + fmt_idx(hi) + " (0,0,0))\n")
            h.write(")\n")
        h.write("101325\n0\n0\n")
        for k in range(c.nsp + 7):
            h.write(g17(0.5 + k) + "\n")
    nst = c.nsp + 7
    for lv in range(m.nlev):
        ldir = os.path.join(path, f"Level_{lv}")
        os.makedirs(ldir)
        nb = len(m.boxes[lv])
        for sub, nf, ng, nodal in (("state", nst, c.ng, 0), ("gradp", 3, 0, 0), ("I_R", c.nsp, 0, 0),
                                   ("divU", 1, 1, 0), ("p", 1, 1, 1)):
            lay = c.layouts[sub][lv]
            files = {}
            for b, (f, r) in enumerate(lay):
                files.setdefault(f, []).append((r, b))
            offs = [None] * nb
            mins, maxs = [None] * nb, [None] * nb
            for f, lst in files.items():
                with open(os.path.join(ldir, f), "wb") as bf:
                    for _, b in sorted(lst):
                        lo, hi = m.boxes[lv][b]
                        glo = tuple(int(v) - ng for v in lo)
                        ghi = tuple(int(v) + ng + nodal for v in hi)
                        if sub == "state":
                            arr = c.state[lv][b]
                        elif sub == "gradp":
                            arr = c.gradp[lv][b]
                        elif sub == "I_R":
                            arr = c.I_R[lv][b]
                        else:
                            shp = tuple(h_ - l_ + 1 for l_, h_ in zip(glo, ghi))
                            arr = np.full(shp + (1,), 0.25)
                        offs[b] = (f, bf.tell())
                        hd = fab_header(glo, ghi, nf)
                        if nodal:
                            hd = hd.replace(b"(0,0,0)) ", b"(1,1,1)) ")
                        bf.write(hd)
                        bf.write(np.ascontiguousarray(arr).flatten(order="F").tobytes())
                        flat = arr.reshape(-1, nf)
                        mins[b], maxs[b] = flat.min(axis=0), flat.max(axis=0)
            with open(os.path.join(ldir, f"{sub}_H"), "w") as ch:
                ch.write("1\n1\n")
                ch.write(f"{nf}\n")
                ch.write(f"{ng}\n")
                ch.write(f"({nb} 0\n")
                for lo, hi in m.boxes[lv]:
                    ch.write("(" + fmt_idx(lo) + " " + fmt_idx(hi) + " (0,0,0))\n")
                ch.write(")\n")
                ch.write(f"{nb}\n")
                for b in range(nb):
                    ch.write(f"FabOnDisk: {offs[b][0]} {offs[b][1]}\n")
                ch.write("\n")
                ch.write(f"{nb},{nf}\n")
                for r in mins:
                    ch.write(fmt_row(r))
                ch.write("\n")
                ch.write(f"{nb},{nf}\n")
                for r in maxs:
                    ch.write(fmt_row(r))
                ch.write("\n")


def expected_plot(c, species, gradp, reactions, floor):
    m = c.mesh
    e = m.copy_meta()
    e.time = c.time
    names = ["x_velocity", "y_velocity", "z_velocity", "density"] + [f"Y({s})" for s in species] + \
            ["rhoh", "temp", "RhoRT"]
    if gradp:
        names += ["gradpx", "gradpy", "gradpz"]
    if reactions:
        names += [f"I_R({s})" for s in species]
    e.fields = names
    e.data = []
    g = c.ng
    for lv in range(m.nlev):
        lvd = []
        for b in range(len(m.boxes[lv])):
            d = c.state[lv][b][g:-g, g:-g, g:-g, :].copy()
            if floor:
                ys = np.sum(d[..., 4:-3], axis=-1)
                d[..., 4:-3] /= ys[..., np.newaxis]
            parts = [d]
            if gradp:
                parts.append(c.gradp[lv][b])
            if reactions:
                parts.append(c.I_R[lv][b])
            lvd.append(np.concatenate(parts, axis=-1))
        e.data.append(lvd)
    return e


class Chk2pltT(tools.ToolCase):
    name = "chk2plt"
    has_default_out = True

    def draw(self, ctx, src):
        self.c = gen_chk(src)
        self.m = self.c.mesh
        # the checkpoint prefix is the user's choice in the solver input (amr.check_file)
        self.primary = src.weighted("chk.name", [("chk00005", 5), ("chk_00120", 1), ("run1_chk00005", 1),
                                                 ("restart00005", 1), ("ck0001", 1)])
        self.gradp = bool(src.draw("opt.gradp", 0, 1))
        self.reactions = bool(src.draw("opt.reactions", 0, 1))
        self.floor = bool(src.draw("opt.floor", 0, 1))
        self.species = SPECIES[:self.c.nsp]
        if src.flag("species.odd_names", 4):
            # names that begin with characters of the field prefixes 'Y(' / 'I_R(' (iso-octane, peroxy radicals ...)
            self.species = ["IC8H18", "RO2", "YO", "I2", "R_X", "H2O"][:self.c.nsp]
        self.ref = bool(src.draw("species.from_plotfile", 0, 1))
        self.ref_fields = "Y"
        if self.ref and src.flag("species.ref_IR", 4):
            self.ref_fields = "I_R"
        self.draw_forms(src)
        if self.opts["cli"] and not self.ref:
            # the CLI's --species option is typed int: names can only come from a reference plotfile
            self.ref = True
        self.opts.update(gradp=self.gradp, reactions=self.reactions, floor=self.floor, ref=self.ref,
                         ref_fields=self.ref_fields, name=self.primary)

    def materialise(self, root):
        p = os.path.join(root, "data", self.primary)
        write_chk(self.c, p)
        ins = [p]
        if self.ref:
            rp = os.path.join(root, "data", "plt_ref")
            os.makedirs(rp)
            names = ["density"] + [f"{self.ref_fields}({s})" for s in self.species] + ["temp"]
            with open(os.path.join(rp, "Header"), "w") as h:
                h.write("HyperCLaw-V1.1\n%d\n" % len(names))
                for n in names:
                    h.write(n + "\n")
                h.write("3\n0.5\n0\n0 0 0 \n1 1 1 \n\n((0,0,0) (1,1,1) (0,0,0)) \n0 \n0.5 0.5 0.5 \n0\n0\n"
                        "0 1 0.5\n0\n0 1\n0 1\n0 1\nLevel_0/Cell\n\n")
            ins.append(rp)
        return ins

    def call(self, ctx, root):
        cwd = self.cwd(root)
        inp = tools.in_path(root, self.primary, self.opts["in_form"], cwd)
        out_arg, out_abs = self.out_arg(root, "converted")
        self.out_abs = out_abs
        ref = os.path.join(root, "data", "plt_ref") if self.ref else None
        if self.opts["cli"]:
            from amr_kitchen.chk2plt import cli
            argv = ["chk2plt", "-c", inp, "-p", ref]
            if out_arg is not None:
                argv += ["-o", out_arg]
            if not self.gradp:
                argv += ["-ip"]
            if self.reactions:
                argv += ["-ir"]
            if not self.floor:
                argv += ["-f"]
            return run_tool(ctx, cli.main, cwd=cwd, argv=argv, label=f"chk2plt {argv[1:]}")
        from amr_kitchen.chk2plt import chk2plt

        def go():
            chk2plt(inp, target_plotfile=ref, species=None if self.ref else list(self.species),
                    gradp=self.gradp, species_reactions=self.reactions, floor_massfracs=self.floor,
                    pltdir=out_arg)
        return run_tool(ctx, go, cwd=cwd, label=f"chk2plt({inp},ref={bool(ref)},gradp={self.gradp},"
                                                 f"reactions={self.reactions},floor={self.floor},out={out_arg})")

    def expected(self):
        return expected_plot(self.c, self.species, self.gradp, self.reactions, self.floor)

    def describe(self):
        d = super().describe()
        d["chk"] = self.c.summary()
        return d


def run_case(ctx):
    src = ctx.src
    common.draw_env(ctx)
    t = Chk2pltT()
    t.draw(ctx, src)
    # (trailing-slash and default-output forms stay in: "never writes into the checkpoint" is part of
    # this property's statement)
    if src.flag("earlier_conversion", 3):
        # an earlier conversion of ANOTHER checkpoint (other species count) in the same process
        first = Chk2pltT()
        first.draw(ctx, RandomSource(src.draw("earlier.seed", 0, 9999)))
        same_root = bool(src.draw("earlier.same_root", 0, 1))
        if same_root:
            # ... of a checkpoint that lived at the very same path (and was converted to the same place)
            first.opts = dict(t.opts)
            first.primary = t.primary
        elif src.flag("earlier.rel_cwd", 3):
            # ... of a checkpoint with the same RELATIVE name in another run directory, under FORK pools
            # (workers that outlive a conversion keep the directory they were forked in)
            if t.opts["in_form"] in ("abs", "abs/"):
                t.opts["in_form"] = "rel"
            first.opts = dict(t.opts)
            first.primary = t.primary
            ctx.fork_mode = True
            ctx.probe("history.rel-cwd-fork")
        else:
            first.opts.update(in_form="abs", cwd="work", out="abs", cli=False)
        r0 = os.path.join(ctx.scratch, "run" if same_root else "earlier")
        first.prepare_root(r0)
        try:
            first.call(ctx, r0)
        except Exception:
            pass
        if same_root:
            import shutil
            if src.flag("earlier.keep_output"):
                shutil.rmtree(os.path.join(r0, "data"))     # the earlier OUTPUT stays: it is written over
                ctx.probe("history.output_preexisting")
            else:
                shutil.rmtree(r0)
        ctx.probe("earlier_conversion_in_process")
    root = os.path.join(ctx.scratch, "run")
    inputs = t.prepare_root(root)
    snaps = [common.snapshot(i) for i in inputs]
    o = t.call(ctx, root)
    sig = {"property": ID, "gradp": t.gradp, "reactions": t.reactions, "floor": t.floor,
           "entry": "cli" if t.opts["cli"] else "api"}
    if not o.ok:
        raise Violation({**sig, "oracle": "convert-raises", **o.exc_sig(), "int_time": float(t.c.time).is_integer()},
                        f"chk2plt raised {o.exc!r}; {t.describe()}")
    for i, s in zip(inputs, snaps):
        d = common.snap_diff(s, common.snapshot(i))
        if d:
            raise Violation({**sig, "oracle": "checkpoint-modified"},
                            f"conversion changed the input tree {ctx.rel(i)}: {d[:5]}")
    if t.out_abs is not None:
        out = t.out_abs
    elif "chk" in t.primary:
        out = os.path.join(root, "data", t.primary.replace("chk", "plt"))
    else:
        # no documented default name without the 'chk' prefix: wherever it is, it is a new directory beside
        # the checkpoint (never the checkpoint itself, which the comparison above has just established)
        new = sorted(d for d in os.listdir(os.path.join(root, "data")) if os.path.join(root, "data", d) not in inputs)
        out = os.path.join(root, "data", new[0]) if len(new) == 1 else os.path.join(root, "data", "<new directory>")
    if not os.path.isdir(out):
        raise Violation({**sig, "oracle": "output-missing", "form_in": t.opts["in_form"], "form_out": t.opts["out"]},
                        f"no plotfile at {ctx.rel(out)} after a conversion that returned normally; {t.describe()}")
    expect = t.expected()
    nf = len(expect.fields)
    rt = None
    if t.floor:
        rt = [1e-14 if 4 <= k < 4 + t.c.nsp else 0 for k in range(nf)]
    sig2 = {**sig, "int_time": float(t.c.time).is_integer(),
            "aniso": len({round(v, 12) for v in t.m.dx[0]}) > 1}
    # the checkpoint stores no cell sizes: (hi - lo) / n is their definition, up to rounding
    common.check_output_plotfile(ctx, sig2, out, expect, minmax="true", rtol=rt, dx_rtol=1e-12, bounds_rtol=1e-12)
    c = t.c
    multi = any(len({f for f, _ in lay}) >= 2 for lay in c.layouts["state"])
    if multi or c.mesh.nlev > 1 or c.layouts["state"] != c.layouts["gradp"]:
        ctx.nontrivial = True
    ctx.case_key = common.key_of([t.describe(), sorted(map(str, ctx.sigs))])
    ctx.sample = {"tool": t.describe(), "schedules": ctx.describe["schedules"][:3]}
