"""C06 - combine merges fields box by box, independent of either input's file layout."""
import os

import numpy as np

from .. import world
from ..core import Violation, run_tool
from . import common, tools

ID = "C06"
LEVEL = "exploration"
BUDGET = {"quick": 24000, "thorough": 480000}
WALL_CAP = {"quick": 600, "thorough": 5400}
RULE = ("case = a generated 3D mesh and TWO plotfiles on it with independently drawn binary layouts (same files/same "
        "order, same files/another on-disk order, different files; monotone or not in either) and independently drawn "
        "field sets (overlapping names possible) x field selections (None or name lists per side; API string/list "
        "forms and the CLI string forms) x {explicit, default} output, combined under a drawn SimPool schedule "
        "(pool.map for the per-file mode, lazily consumed generator + imap for the per-box mode) with poisoned "
        "np.empty; oracle: independent parse of the output equals fields1 + (fields2 minus fields1), every box "
        "bit-identical to the two source boxes with the same index range, min/max rows assembled from the sources, "
        "taste accepts. Negative arm: second input with another level count / a box removed / a box moved / the same "
        "boxes in another header order: an exception and no write-effect in the audit log (for the reordered case a "
        "correct result is accepted too). Fault arm (an eighth of the positive cases): one binary file of one input is "
        "unreadable part-way - combine may fail, an output it returns normally with is judged like any other. Histories: "
        "the same request served before on twins at the same paths, or in another run directory with relative names "
        "under FORK pools. non-trivial = layouts differ between the inputs or one is multi-file/"
        "non-monotone, or a selection is used; distinct = hash(worlds, selections, form, schedules)")
ASSUMPTIONS = ["independent reader/model is the oracle"]


def mutate_mesh(src, m1):
    """Second mesh that differs from m1: returns (m2, kind)."""
    kind = src.choice("neg.kind", ["levels", "box-removed", "box-moved", "header-order"])
    m2 = m1.copy_meta()
    if kind == "levels":
        if m1.nlev < 2:
            return None, kind
        m2 = m1.restrict(m1.fields, m1.nlev - 2)
        m2.fields = list(m1.fields)
        return m2, kind
    lv = src.draw("neg.lv", 0, m1.nlev - 1)
    nb = len(m1.boxes[lv])
    if kind == "box-removed":
        if nb < 2:
            return None, kind
        b = src.draw("neg.b", 0, nb - 1)
        del m2.boxes[lv][b]
        return m2, kind
    if kind == "box-moved":
        # shift one box of the finest level by its own extent (stays a valid index range)
        b = src.draw("neg.b", 0, nb - 1)
        lo, hi = m2.boxes[lv][b]
        ext = hi[0] - lo[0] + 1
        m2.boxes[lv][b] = ((lo[0] + ext,) + tuple(lo[1:]), (hi[0] + ext,) + tuple(hi[1:]))
        if m2.boxes[lv][b] in m1.boxes[lv]:
            return None, kind
        return m2, kind
    if nb < 2:
        return None, kind
    b = src.draw("neg.b", 0, nb - 2)
    m2.boxes[lv][b], m2.boxes[lv][b + 1] = m2.boxes[lv][b + 1], m2.boxes[lv][b]
    return m2, kind


def run_case(ctx):
    src = ctx.src
    common.draw_env(ctx)
    common.prelude(ctx)
    negative = src.flag("negative", 5)
    t = tools.CombineT()
    t.draw(ctx, src)
    if t.opts["in_form"] == "dot":
        t.opts["in_form"] = "rel"
    if t.opts["in_form"].endswith("/"):
        t.opts["in_form"] = t.opts["in_form"][:-1]     # invocation forms are C13's business
    sig = {"property": ID, "entry": "cli" if t.opts["cli"] else "api"}
    root = os.path.join(ctx.scratch, "run")
    if negative:
        t.limit = None          # (a level limit on the readers could hide the difference)
        t.opts["limit"] = None
        far = src.flag("neg.far_origin", 3)
        if src.flag("neg.far_index", 8):
            # a long, deeply refined domain: cell indices of the order of 5e5, where comparing index ranges
            # with a relative tolerance no longer tells neighbouring boxes apart
            f2 = list(t.m2.fields)
            t.m1 = world.gen_scale_world(src, "longdomain", tag="nf")
            t.m2 = t.m1.copy_meta()
            t.m2.fields = [f for f in f2 if f not in t.m1.fields] or ["zeta"]
            t.v1 = t.v2 = None
            t.opts.update(vars1=None, vars2=None)
            far = False
            m2, kind = t.m1.copy_meta(), "box-moved"
            lv = t.m1.nlev - 1
            lo, hi = m2.boxes[lv][2]
            sh = src.choice("nf.shift", [4, 1, 2])
            m2.boxes[lv][2] = ((lo[0] + sh,) + tuple(lo[1:]), (hi[0] + sh,) + tuple(hi[1:]))
            ctx.probe("negative_far_index")
        else:
            m2, kind = mutate_mesh(src, t.m1)
        if far and m2 is not None:
            # a domain far from the coordinate origin relative to its cell size: physical box bounds of
            # different boxes agree to many digits, index ranges do not
            for d in range(t.m1.ndims):
                off = 2.0 ** 22 * (t.m1.geo_high[d] - t.m1.geo_low[d])
                for mm in (t.m1, m2):
                    mm.geo_low[d] += off
                    mm.geo_high[d] += off
            t.m1.phys = m2.phys = None
            ctx.probe("negative_far_origin")
        if m2 is None:
            negative = False
        else:
            m2.fields = list(t.m2.fields)
            world.gen_layout(src, m2, tag="neg")
            world.fill_random(m2, 4242)
            t.m2 = m2
    if negative:
        inputs = t.prepare_root(root)
        w0 = len(ctx.writes)
        o = t.call(ctx, root)
        writes = [(k, ctx.rel(p)) for (a, k, p) in ctx.writes[w0:]]
        sig = {**sig, "neg": kind}
        if o.ok and kind == "header-order":
            # accepted only if correct
            t.v2 = t.v2
        elif o.ok:
            raise Violation({**sig, "oracle": "mismatch-not-refused"},
                            f"combine accepted inputs whose meshes differ ({kind}) and returned normally")
        else:
            if writes:
                raise Violation({**sig, "oracle": "mismatch-refused-after-writing"},
                                f"combine refused mismatching inputs ({kind}, {o.exc!r}) only after write-effects {writes[:4]}")
            ctx.nontrivial = True
            ctx.case_key = common.key_of(["neg", kind, t.m1.summary(), t.describe()])
            ctx.sample = {"negative": kind, "tool": t.describe()}
            return
    else:
        if src.flag("hist.on", 6):
            # the same request was served before, in this process, on twins living at the same paths
            import copy
            import shutil
            from ..choice import RandomSource
            sub = RandomSource(src.draw("hist.seed", 0, 9999))
            elsewhere = src.flag("hist.elsewhere", 3)
            if elsewhere:
                # ... or in ANOTHER run directory, everything named relatively, under FORK pools: workers that
                # outlive the first combine keep the directory they were started in
                t.opts["in_form"] = "rel"
                if t.opts.get("out") == "abs":
                    t.opts["out"] = "rel"
                ctx.fork_mode = True
                ctx.probe("history.elsewhere")
            root_h = os.path.join(ctx.scratch, "run_earlier") if elsewhere else root
            t2 = copy.copy(t)
            t2.opts = dict(t.opts)
            t2.m1, t2.m2 = t.m1.copy_meta(), t.m2.copy_meta()
            for mm, tg in ((t2.m1, "a"), (t2.m2, "b")):
                world.gen_layout(sub, mm, tag=tg)
                world.fill_random(mm, sub.draw(tg + ".data", 0, 999999))
            t2.prepare_root(root_h)
            try:
                t2.call(ctx, root_h)
            except Exception:
                pass
            if elsewhere:
                pass
            elif src.flag("hist.keep_output"):
                # ... and its OUTPUT is still there: the new result is written over it
                shutil.rmtree(os.path.join(root, "data"))
                ctx.probe("history.output_preexisting")
            else:
                shutil.rmtree(root)
            ctx.probe("history.same-path")
        inputs = t.prepare_root(root)
        if src.flag("read_fault", 8):
            # fault-injecting configuration (apart from the fault-free runs): one binary file of one input
            # becomes unreadable part-way.  combine may fail; if it returns normally its output is judged below
            # like any other (what it read short must not end up in the result)
            k = src.draw("read_fault.input", 0, 1)
            plan, fdesc = common.draw_read_fault(src, (t.m1, t.m2)[k], inputs[k], tag="read_fault",
                                                 max_level=getattr(t, "limit", None))
            ctx.read_fault_paths = plan
            nf0 = len(ctx.faults_fired)
            try:
                o = t.call(ctx, root)
            finally:
                ctx.read_fault_paths = {}
            if len(ctx.faults_fired) > nf0:
                ctx.probe("read_fault_fired")
                if not o.ok:
                    ctx.probe("read_fault_reported")
                    ctx.nontrivial = True
                    ctx.case_key = common.key_of(["read-fault", fdesc, t.describe()])
                    return
        else:
            o = t.call(ctx, root)
    lay = t.layout_rel
    sig = {**sig, "layout_rel": lay, "mono": bool(t.m1.is_monotone() and t.m2.is_monotone())}
    f1, f2 = t.fields_expected()
    if not f2:
        # nothing left to take from the second input: refusing is the documented behaviour
        if o.ok:
            raise Violation({**sig, "oracle": "empty-second-selection-accepted"},
                            "combine returned normally although no field of the second input was left to combine")
        ctx.case_key = common.key_of(["nof2", t.describe()])
        return
    if not o.ok:
        raise Violation({**sig, "oracle": "combine-raises", **o.exc_sig(), "vars2": t.v2 is not None},
                        f"combine raised {o.exc!r}; {t.describe()}; worlds {t.m1.summary()} / {t.m2.summary()['files']}")
    out = t.out_abs
    if out is None:
        out = os.path.join(t.cwd(root), "plt1plt2")
    expect = t.expected()
    mm = {}
    i1 = [t.m1.fields.index(f) for f in f1]
    i2 = [t.m2.fields.index(f) for f in f2]
    if getattr(t, "limit", None) is not None and expect.nlev != t.limit + 1:
        ctx.case_key = common.key_of(["limit-mismatch", t.describe()])
        return
    for lv in range(expect.nlev):
        a1, b1 = t.m1.minmax_rows(lv)
        a2, b2 = t.m2.minmax_rows(lv)
        omap = {t.m2.boxes[lv][b]: b for b in range(len(t.m2.boxes[lv]))}
        mins, maxs = [], []
        for b, box in enumerate(t.m1.boxes[lv]):
            ob = omap[box]
            mins.append(np.concatenate([a1[b][i1], a2[ob][i2]]))
            maxs.append(np.concatenate([b1[b][i1], b2[ob][i2]]))
        mm[lv] = (mins, maxs)
    common.check_output_plotfile(ctx, sig, out, expect, minmax=mm)
    if lay != "same" or not t.m1.is_monotone() or t.v1 is not None or t.v2 is not None or \
            any(len({f for f, _ in l}) >= 2 for l in t.m1.layout):
        ctx.nontrivial = True
    ctx.case_key = common.key_of([t.m1.summary(), t.m2.summary(), t.describe(), sorted(map(str, ctx.sigs))])
    ctx.sample = {"world1": t.m1.summary(), "files2": t.m2.summary()["files"], "tool": t.describe(),
                  "schedules": ctx.describe["schedules"][:3]}
