"""Tool descriptors shared by C12 (schedule independence), C13 (inputs untouched / failures
reported) and C14 (pipelines).  A ToolCase draws its options once (`draw`), can materialise
its inputs into any number of fresh run directories (`materialise`) and run the real tool
there (`run`), so that one drawn case can be executed under many schedules or fault plans.

Run directory layout:   <root>/data/<inputs>   <root>/work/ (a cwd)   <root>/out/ (explicit outputs)
"""
import os
import shutil

import numpy as np

from .. import world, core
from ..core import run_tool
from . import common


def in_path(root, name, form, cwd):
    p = os.path.join(root, "data", name)
    if form in ("rel", "rel/", "dot"):
        p = os.path.relpath(p, cwd)
    if form.endswith("/"):
        p += "/"
    return p


# "dot": the tool is started INSIDE its (first) input directory and names it "."
IN_FORMS = ["abs", "rel", "abs/", "rel/", "dot"]


class ToolCase:
    name = "?"
    has_default_out = False
    has_cli = True
    writer = True
    needs_3d = True
    primary = "plt00100"          # name under <root>/data of the first input
    default_in_cwd = False        # the documented default output is a name in the cwd, not beside the input

    def __init__(self):
        self.opts = {}

    # -- to be provided
    def draw(self, ctx, src):
        raise NotImplementedError

    def materialise(self, root):
        """write inputs under root/data; returns list of input tree paths"""
        raise NotImplementedError

    def call(self, ctx, root):
        raise NotImplementedError

    # -- common
    def draw_forms(self, src, allow_default=True, allow_slash=True):
        o = self.opts
        forms = IN_FORMS if allow_slash else IN_FORMS[:2]
        o["in_form"] = src.choice("form.in", forms)
        o["cwd"] = src.choice("form.cwd", ["work", "data"])
        outs = ["abs", "rel"] + (["default"] if (self.has_default_out and allow_default) else [])
        o["out"] = src.choice("form.out", outs)
        if o["in_form"] == "dot" and o["out"] == "default" and self.default_in_cwd:
            # combine and whip document their default output as a name in the CURRENT directory: started
            # inside the input, that request is itself "inside the input" - not the tool's doing
            o["out"] = "abs"
        o["cli"] = bool(src.draw("form.cli", 0, 1)) if self.has_cli else False

    def cwd(self, root):
        if self.opts.get("in_form") == "dot":
            return os.path.join(root, "data", self.primary)
        return os.path.join(root, self.opts.get("cwd", "work"))

    def out_arg(self, root, name):
        """(argument to pass or None for default, absolute explicit path or None)"""
        o = self.opts["out"]
        ap = os.path.join(root, "out", name)
        if o == "default":
            return None, None
        if o == "rel":
            return os.path.relpath(ap, self.cwd(root)), ap
        return ap, ap

    def prepare_root(self, root):
        os.makedirs(os.path.join(root, "data"), exist_ok=True)
        os.makedirs(os.path.join(root, "work"), exist_ok=True)
        os.makedirs(os.path.join(root, "out"), exist_ok=True)
        ins = self.materialise(root)
        if core.CUR is not None:
            core.age_tree(core.CUR, os.path.join(root, "data"))    # a later generation is a newer one
        return ins

    def describe(self):
        return {"tool": self.name, **{k: (v if isinstance(v, (int, float, str, bool, list, type(None))) else str(v))
                                      for k, v in self.opts.items()}}


def _world3d(src, tag="w", **kw):
    return world.gen_world(src, tag=tag, force_3d=True, **kw)


# ------------------------------------------------------------------------------ colander
class ColanderT(ToolCase):
    name = "colander"
    needs_3d = False

    def draw(self, ctx, src):
        from .c05 import draw_selection
        self.m = world.gen_world(src, scale=("manyboxes",), scale_rate=25)
        self.req, self.names = draw_selection(src, self.m)
        self.limit = src.draw("limit.v", 0, self.m.nlev - 1) if src.flag("limit") else None
        self.draw_forms(src)
        self.opts.update(vars=self.req, limit=self.limit)

    def materialise(self, root):
        p = os.path.join(root, "data", "plt00100")
        world.write_plotfile(self.m, p)
        return [p]

    def call(self, ctx, root):
        cwd = self.cwd(root)
        inp = in_path(root, "plt00100", self.opts["in_form"], cwd)
        out_arg, out_abs = self.out_arg(root, "strained")
        self.out_abs = out_abs
        if self.opts["cli"]:
            from amr_kitchen.colander import cli
            argv = ["colander", inp, "-v", *self.req, "-o", out_arg]
            if self.limit is not None:
                argv += ["-l", str(self.limit)]
            return run_tool(ctx, cli.main, cwd=cwd, argv=argv, label=f"colander {argv[1:]}")
        from amr_kitchen.colander.colander import Colander

        def go():
            Colander(plotfile=inp, limit_level=self.limit, output=out_arg, variables=list(self.req)).strain()
        return run_tool(ctx, go, cwd=cwd, label=f"Colander({inp},{self.req},{self.limit},{out_arg})")

    def expected(self):
        return self.m.restrict(self.names, self.limit)

    def varied(self):
        """The same tool case asked for another selection: everything if a subset was drawn, one field otherwise."""
        import copy
        t = copy.copy(self)
        t.opts = dict(self.opts)
        if list(self.names) == list(self.m.fields):
            t.req, t.names = [self.m.fields[-1]], [self.m.fields[-1]]
        else:
            t.req, t.names = ["all"], list(self.m.fields)
        t.opts.update(vars=t.req)
        return t


# ------------------------------------------------------------------------------ combine
class CombineT(ToolCase):
    name = "combine"
    primary = "plt1"
    default_in_cwd = True
    has_default_out = True

    def draw(self, ctx, src, mono_only=False):
        m1 = world.gen_mesh(src, tag="w", force_3d=True)
        m1.fields = world.gen_fields(src, tag="w", nmax=6)
        world.gen_layout(src, m1, tag="w", force_style=0 if mono_only else None)
        world.fill_random(m1, src.draw("w.dataseed", 0, 999999))
        world.gen_cosmetics(src, m1, "w")
        m2 = m1.copy_meta()
        rel = src.draw("w2.layout_rel", 0, 0 if mono_only else 3)
        m2.fields = world.gen_fields(src, tag="w2", nmax=6)
        if rel == 0:
            m2.layout = [list(l) for l in m1.layout]            # same files, same order
        elif rel == 1:
            # same files, another on-disk order
            m2.layout = []
            for lv in range(m1.nlev):
                rng = np.random.default_rng(src.draw(f"w2.L{lv}.reorder", 0, 9999))
                fo = m1.file_order(lv)
                lay = [None] * len(m1.boxes[lv])
                for f, bids in fo.items():
                    for r, b in enumerate(rng.permutation(bids)):
                        lay[int(b)] = (f, r)
                m2.layout.append(lay)
        else:
            world.gen_layout(src, m2, tag="w2")                  # independent files and order
        world.fill_random(m2, src.draw("w2.dataseed", 0, 999999))
        world.gen_cosmetics(src, m2, "w2")
        self.m1, self.m2 = m1, m2
        self.layout_rel = ["same", "reordered", "independent", "independent"][rel]
        # selections
        self.v1 = None
        self.v2 = None
        if src.flag("sel1"):
            idx = src.subset("sel1.set", len(m1.fields), min_size=1)
            order = src.perm("sel1.order", len(idx)) if 1 < len(idx) <= 8 else list(range(len(idx)))
            self.v1 = [m1.fields[idx[i]] for i in order]
        if src.flag("sel2"):
            idx = src.subset("sel2.set", len(m2.fields), min_size=1)
            order = src.perm("sel2.order", len(idx)) if 1 < len(idx) <= 8 else list(range(len(idx)))
            self.v2 = [m2.fields[idx[i]] for i in order]
        self.draw_forms(src)
        # the readers can be opened with a level limit (API only): combine then merges levels 0..limit
        self.limit = None
        if not self.opts["cli"] and m1.nlev > 1 and src.flag("cooker_limit", 4):
            self.limit = src.draw("cooker_limit.v", 0, m1.nlev - 1)
        self.opts.update(vars1=self.v1, vars2=self.v2, layout_rel=self.layout_rel,
                         mono1=m1.is_monotone(), mono2=m2.is_monotone(), limit=self.limit)

    def fields_expected(self):
        f1 = list(self.m1.fields) if self.v1 is None else list(self.v1)
        f2src = list(self.m2.fields) if self.v2 is None else list(self.v2)
        f2 = [f for f in f2src if f not in f1]
        return f1, f2

    def materialise(self, root):
        p1 = os.path.join(root, "data", "plt1")
        p2 = os.path.join(root, "data", "plt2")
        world.write_plotfile(self.m1, p1)
        world.write_plotfile(self.m2, p2)
        return [p1, p2]

    def call(self, ctx, root):
        cwd = self.cwd(root)
        i1 = in_path(root, "plt1", self.opts["in_form"], cwd)
        i2 = in_path(root, "plt2", self.opts["in_form"], cwd)
        out_arg, out_abs = self.out_arg(root, "combined")
        self.out_abs = out_abs
        v1 = None if self.v1 is None else " ".join(self.v1)
        if self.opts["cli"]:
            from amr_kitchen.combine import cli
            argv = ["combine", "-p1", i1, "-p2", i2]
            if out_arg is not None:
                argv += ["-o", out_arg]
            if v1 is not None:
                argv += ["-v1", v1]
            if self.v2 is not None:
                argv += ["-v2", " ".join(self.v2)]
            return run_tool(ctx, cli.main, cwd=cwd, argv=argv, label=f"combine {argv[1:]}")
        from amr_kitchen import PlotfileCooker
        from amr_kitchen.combine import combine

        lk = {} if getattr(self, "limit", None) is None else {"limit_level": self.limit}

        def go():
            combine(PlotfileCooker(i1, **lk), PlotfileCooker(i2, **lk), pltout=out_arg, vars1=v1,
                    vars2=None if self.v2 is None else list(self.v2))
        return run_tool(ctx, go, cwd=cwd, label=f"combine({i1},{i2},out={out_arg},v1={v1},v2={self.v2})")

    def expected(self):
        f1, f2 = self.fields_expected()
        lim = getattr(self, "limit", None)
        if lim is not None and self.m2.nlev > lim:
            return self.m1.restrict(self.m1.fields, lim).combine(self.m2.restrict(self.m2.fields, lim), f1, f2)
        return self.m1.combine(self.m2, f1, f2)


# ------------------------------------------------------------------------------ chef (user recipes, no Cantera)
RECIPE_SRC = {
    "lin": ('def recipe(field_indexes, box_array):\n    """{names}"""\n'
            '    return box_array[..., {i}] * 2.0 + box_array[..., {j}]\n'),
    "two": ('import numpy as np\n'
            'def recipe(field_indexes, box_array):\n    """{names}"""\n'
            '    a = box_array[..., {i}] - box_array[..., {j}]\n'
            '    b = box_array[..., {i}] * box_array[..., {j}]\n'
            '    return np.stack([a, b], axis=-1)\n'),
    "inv": ('import numpy as np\n'
            'def recipe(field_indexes, box_array):\n    """{names}"""\n'
            '    with np.errstate(all="ignore"):\n'
            '        return 1.0 / (box_array[..., {i}] - box_array[..., {i}].flat[0])\n'),
    "byname": ('def recipe(field_indexes, box_array):\n    """{names}"""\n'
               '    return box_array[..., field_indexes[{fname!r}]] + 1.0\n'),
    # a recipe that works on its argument in place (the array it is given is its own to scribble on)
    "inplace": ('def recipe(field_indexes, box_array):\n    """{names}"""\n'
                '    w = box_array[..., {i}]\n    w *= 2.0\n    w += box_array[..., {j}]\n    return w\n'),
}


def recipe_eval(kind, arr, i, j):
    with np.errstate(all="ignore"):
        if kind == "lin":
            return (arr[..., i] * 2.0 + arr[..., j])[..., None]
        if kind == "two":
            return np.stack([arr[..., i] - arr[..., j], arr[..., i] * arr[..., j]], axis=-1)
        if kind == "inv":
            return (1.0 / (arr[..., i] - arr[..., i].flat[0]))[..., None]
        if kind == "byname":
            return (arr[..., i] + 1.0)[..., None]
        if kind == "inplace":
            a = arr.copy()
            w = a[..., i]
            w *= 2.0
            w += a[..., j]
            return w[..., None].copy()
    raise ValueError(kind)


class ChefUserT(ToolCase):
    name = "chef"
    has_default_out = True

    def draw(self, ctx, src, m=None):
        self.m = m if m is not None else _world3d(src, special_ok=False)
        nf = len(self.m.fields)
        self.kind = src.choice("recipe.kind", ["lin", "two", "inv", "byname", "inplace"])
        self.i = src.draw("recipe.i", 0, nf - 1)
        self.j = src.draw("recipe.j", 0, nf - 1)
        self.newnames = ["new_a", "new_b"] if self.kind == "two" else ["new_a"]
        self.kept = []
        # (an in-place recipe is cooked without kept fields: whether kept fields should show the recipe's
        # scribbling is left open by the statement)
        if self.kind != "inplace" and src.flag("kept"):
            idx = src.subset("kept.set", nf, min_size=1)
            order = src.perm("kept.order", len(idx)) if len(idx) <= 8 else list(range(len(idx)))
            self.kept = [self.m.fields[idx[k]] for k in order]
        self.serial = bool(src.draw("serial", 0, 1))
        self.draw_forms(src)
        if self.opts["cli"]:
            self.serial = False
        # the recipe as a function object defined at run time instead of a .py file (API only)
        self.as_callable = (not self.opts["cli"]) and bool(src.flag("recipe.callable", 4))
        self.opts.update(recipe=self.kind, i=self.i, j=self.j, kept=self.kept, serial=self.serial,
                         callable=self.as_callable)

    def materialise(self, root):
        p = os.path.join(root, "data", "plt00100")
        world.write_plotfile(self.m, p)
        rdir = os.path.join(root, "work", "recipes")
        os.makedirs(rdir, exist_ok=True)
        with open(os.path.join(rdir, "rec.py"), "w") as f:
            f.write(RECIPE_SRC[self.kind].format(names=" ".join(self.newnames), i=self.i, j=self.j,
                                                 fname=self.m.fields[self.i]))
        return [p]

    def call(self, ctx, root):
        cwd = self.cwd(root)
        inp = in_path(root, "plt00100", self.opts["in_form"], cwd)
        out_arg, out_abs = self.out_arg(root, "cooked")
        self.out_abs = out_abs
        rec = os.path.join(root, "work", "recipes", "rec.py")
        kept = " ".join(self.kept) if self.kept else None
        if self.opts["cli"]:
            from amr_kitchen.chef import cli
            argv = ["chef", inp, "-r", rec]
            if out_arg is not None:
                argv += ["-o", out_arg]
            if kept:
                argv += ["-k", kept]
            return run_tool(ctx, cli.main, cwd=cwd, argv=argv, label=f"chef {argv[1:]}")
        from amr_kitchen.chef.chef import Chef

        recipe_arg = rec
        if getattr(self, "as_callable", False):
            ns = {}
            with core._REAL_OPEN(rec) as fh:
                exec(compile(fh.read(), "<recipe defined at run time>", "exec"), ns)
            recipe_arg = ns["recipe"]

        def go():
            Chef(inp, recipe=recipe_arg, outfile=out_arg, serial=self.serial, kept_fields=kept).cook()
        return run_tool(ctx, go, cwd=cwd, label=f"Chef({inp},{self.kind}{' as callable' if recipe_arg is not rec else ''},"
                                                 f"kept={self.kept},serial={self.serial},out={out_arg})")

    def expected(self):
        """Fields: every component stored under its own name; the statement fixes no order
        between kept and new fields, so the order is taken from the output (see C11)."""
        m = self.m
        kidx = [m.fields.index(f) for f in self.kept]

        def fn(lv, b, arr):
            return np.concatenate([arr[..., kidx], recipe_eval(self.kind, arr, self.i, self.j)], axis=-1)
        return m.with_fields(list(self.kept) + list(self.newnames), fn)


# ------------------------------------------------------------------------------ mandoline
class MandolineT(ToolCase):
    name = "mandoline"
    has_default_out = True
    needs_3d = False

    def draw(self, ctx, src, formats=("array", "plotfile", "return")):
        self.m = world.gen_world(src, special_ok=False)
        m = self.m
        nf = len(m.fields)
        self.fformat = src.choice("fformat", list(formats))
        if m.ndims == 2 and self.fformat == "plotfile":
            self.fformat = "array"
        idx = src.subset("fields.set", nf, min_size=1)
        self.fields = [m.fields[i] for i in idx]
        if src.flag("grid_level", 3):
            self.fields.append("grid_level")
        if src.flag("allfields", 5):
            self.fields = ["all"]
        self.limit = src.draw("limit.v", 0, m.nlev - 1) if src.flag("limit") else None
        self.serial = bool(src.draw("serial", 0, 1))
        self.normal = src.draw("normal", 0, 2) if m.ndims == 3 else None
        self.pos = None
        if m.ndims == 3:
            k = src.draw("pos.kind", 0, 3)
            lo, hi = m.geo_low[self.normal], m.geo_high[self.normal]
            if k == 1:
                self.pos = lo + (hi - lo) * src.draw("pos.frac", 0, 64) / 64.0
            elif k == 2:
                self.pos = lo + (hi - lo) * (src.draw("pos.cell", 0, 63) + 0.5) / 64.0
            elif k == 3:
                self.pos = lo + (hi - lo) * src.draw("pos.fine", 1, 999) / 1000.0
        self.preexisting = bool(src.draw("preexisting_out", 0, 1)) if self.fformat == "plotfile" else False
        self.earlier = None
        others = [f for f in m.fields if f not in self.fields]
        if others and src.flag("earlier_slice", 4):
            self.earlier = others[src.draw("earlier_slice.f", 0, len(others) - 1)]
        self.draw_forms(src)
        if self.fformat == "return":
            self.opts["cli"] = False
            self.opts["out"] = "abs"
        self.opts.update(fformat=self.fformat, fields=self.fields, limit=self.limit, serial=self.serial,
                         normal=self.normal, pos=self.pos, preexisting=self.preexisting, earlier=self.earlier)

    def materialise(self, root):
        p = os.path.join(root, "data", "plt00100")
        world.write_plotfile(self.m, p)
        if self.preexisting and self.opts["out"] != "default":
            d = os.path.join(root, "out", "sliced")
            os.makedirs(os.path.join(d, "Level_0"))
            with open(os.path.join(d, "Level_0", "stale"), "w") as f:
                f.write("old")
        return [p]

    def call(self, ctx, root):
        cwd = self.cwd(root)
        inp = in_path(root, "plt00100", self.opts["in_form"], cwd)
        out_arg, out_abs = self.out_arg(root, "sliced")
        self.out_abs = out_abs
        if self.opts["cli"]:
            from amr_kitchen.mandoline import cli
            argv = ["mandoline", inp, "-f", self.fformat, "-v", *self.fields, "-V", "0"]
            if out_arg is not None:
                argv += ["-o", out_arg]
            if self.limit is not None:
                argv += ["-L", str(self.limit)]
            if self.normal is not None:
                argv += ["-n", str(self.normal)]
            if self.pos is not None:
                argv += ["--position=" + repr(self.pos)]     # (argparse takes '-5e-05' for an option)
            if self.serial:
                argv += ["-s"]
            return run_tool(ctx, cli.main, cwd=cwd, argv=argv, label=f"mandoline {argv[1:]}")
        from amr_kitchen.mandoline.mandoline import Mandoline

        def go():
            if getattr(self, "earlier", None):
                # another Mandoline object sliced another field of this plotfile before, serially, in this process
                try:
                    Mandoline(inp, fields=[self.earlier], limit_level=self.limit, serial=True, verbose=0).slice(
                        normal=self.normal, pos=self.pos, fformat="return")
                except Exception:
                    pass
            md = Mandoline(inp, fields=list(self.fields), limit_level=self.limit, serial=self.serial, verbose=0)
            return md.slice(normal=self.normal, pos=self.pos, outfile=out_arg, fformat=self.fformat)
        return run_tool(ctx, go, cwd=cwd, label=f"Mandoline({inp},{self.fields},L={self.limit},serial={self.serial})"
                                                 f".slice({self.normal},{self.pos},{out_arg},{self.fformat})")


# ------------------------------------------------------------------------------ whip
class WhipT(ToolCase):
    name = "whip"
    has_default_out = True
    default_in_cwd = True

    def draw(self, ctx, src):
        self.m = _world3d(src)
        self.var = src.choice("var", self.m.fields)
        self.dtype = src.choice("dtype", ["float64", "float32"])
        self.limit = src.draw("limit.v", 0, self.m.nlev - 1) if src.flag("limit") else None
        self.draw_forms(src)
        self.opts["cli"] = True
        self.opts.update(var=self.var, dtype=self.dtype, limit=self.limit)

    def materialise(self, root):
        p = os.path.join(root, "data", "plt00100")
        world.write_plotfile(self.m, p)
        return [p]

    def call(self, ctx, root):
        from amr_kitchen.whip import cli
        cwd = self.cwd(root)
        inp = in_path(root, "plt00100", self.opts["in_form"], cwd)
        out_arg, out_abs = self.out_arg(root, "ugrid")
        self.out_abs = out_abs
        argv = ["whip", "-y", "-v", self.var, "-d", self.dtype]
        if out_arg is not None:
            argv += ["-o", out_arg]
        if self.limit is not None:
            argv += ["-l", str(self.limit)]
        argv.append(inp)
        return run_tool(ctx, cli.main, cwd=cwd, argv=argv, label=f"whip {argv[1:]}")


# ------------------------------------------------------------------------------ marinate
class MarinateT(ToolCase):
    name = "marinate"
    has_default_out = True

    def draw(self, ctx, src):
        self.m = _world3d(src)
        self.draw_forms(src)
        self.opts["out"] = "default"
        self.opts["cli"] = True

    def materialise(self, root):
        p = os.path.join(root, "data", "plt00100")
        world.write_plotfile(self.m, p)
        return [p]

    def call(self, ctx, root):
        from amr_kitchen import marinate
        cwd = self.cwd(root)
        inp = in_path(root, "plt00100", self.opts["in_form"], cwd)
        self.out_abs = None
        return run_tool(ctx, marinate.main, cwd=cwd, argv=["marinate", inp], label=f"marinate {inp}")


# ------------------------------------------------------------------------------ read-only tools
class ReadOnlyT(ToolCase):
    writer = False
    needs_3d = False

    def __init__(self, which):
        super().__init__()
        self.name = which

    def draw(self, ctx, src):
        self.m = _world3d(src) if self.name == "pestle" else world.gen_world(src)
        self.var = src.choice("var", self.m.fields)
        self.draw_forms(src)
        self.opts["out"] = "abs"
        self.opts["cli"] = True
        self.opts.update(var=self.var)

    def materialise(self, root):
        p = os.path.join(root, "data", "plt00100")
        world.write_plotfile(self.m, p)
        return [p]

    def call(self, ctx, root):
        cwd = self.cwd(root)
        inp = in_path(root, "plt00100", self.opts["in_form"], cwd)
        self.out_abs = None
        if self.name == "taste":
            from amr_kitchen.taste import cli
            argv = ["taste", inp, "-v", "0"]
        elif self.name == "menu":
            from amr_kitchen.menu import cli
            argv = ["menu", inp, "-m"]
        elif self.name == "minuterie":
            from amr_kitchen import minuterie as cli
            argv = ["minuterie", inp]
        else:
            from amr_kitchen.pestle import cli
            argv = ["pestle", "-v", self.var, inp]
        return run_tool(ctx, cli.main, cwd=cwd, argv=argv, label=f"{self.name} {argv[1:]}")


def make_tool(name):
    return {"colander": ColanderT, "combine": CombineT, "chef": ChefUserT, "mandoline": MandolineT,
            "whip": WhipT, "marinate": MarinateT}.get(name, lambda: ReadOnlyT(name))()
