"""Designed 3D worlds and position sets for the mandoline slice properties (C07, C16)."""
import numpy as np

from .. import world

A0, B0 = 3.25, -1.75          # aff = A0 + B0 * (n - n_low) / length


def designed_world(src, tag="w", max_levels=3):
    """3D world with fields aff (affine along EVERY axis: aff_<axis> chosen by the normal),
    cst_<axis> (unique per level and in-plane cell, constant along that axis), rnd."""
    m = world.gen_mesh(src, tag=tag, force_3d=True, max_levels=max_levels, min_cells0=4, max_blocks0=3,
                       max_boxes=16)
    m.fields = ["aff_x", "aff_y", "aff_z", "cst_x", "cst_y", "cst_z", "rnd", "ext"]
    world.gen_layout(src, m, tag=tag)
    seed = src.draw(f"{tag}.dataseed", 0, 999999)
    rng = np.random.default_rng(seed)
    L = [m.geo_high[d] - m.geo_low[d] for d in range(3)]

    def fn(lv, b, idx, coords):
        shp = idx[0].shape
        out = np.empty(shp + (8,))
        for d in range(3):
            out[..., d] = A0 + B0 * (coords[d] - m.geo_low[d]) / L[d]
            cx, cy = [a for a in range(3) if a != d]
            out[..., 3 + d] = (lv + 1) * 1.0e6 + idx[cx] * 1000.0 + idx[cy] + 0.5
        # one magnitude everywhere: a zero-weight neighbour sample then costs at most rounding
        out[..., 6] = rng.uniform(1.0, 2.0, shp)
        # non-finite payloads next to ordinary ones: the interpolation formula must not turn inf
        # into NaN (checked only for planes strictly between cell centres, where no zero-weight
        # sample can enter; values near the float64 limits are left out: their interpolation is
        # dominated by rounding)
        ext = rng.standard_normal(shp)
        pick = rng.integers(0, 8, shp)
        for k_, v_ in enumerate([np.inf, -np.inf, np.nan, np.inf]):
            ext[pick == k_] = v_
        out[..., 7] = ext
        return out
    world.fill_with(m, fn)
    world.gen_cosmetics(src, m, tag)
    return m


def aff_value(m, cn, pos):
    return A0 + B0 * (pos - m.geo_low[cn]) / (m.geo_high[cn] - m.geo_low[cn])


def draw_position(src, m, cn, tag="pos"):
    """Position from the designed set.  Returns (pos or None, kind)."""
    lo, hi = m.geo_low[cn], m.geo_high[cn]
    kind = src.choice(f"{tag}.kind", ["centre", "face", "boxface-gap", "random", "domain-face", "first-last-half",
                                      "default"])
    lv = src.draw(f"{tag}.lv", 0, m.nlev - 1)
    n = int(m.grid_sizes[lv][cn])
    dx = m.dx[lv][cn]
    dxf = m.dx[-1][cn]
    if kind == "centre":
        k = src.draw(f"{tag}.k", 0, n - 1)
        return lo + (k + 0.5) * dx, kind
    if kind == "face":
        k = src.draw(f"{tag}.k", 0, n)
        return min(hi, lo + k * dx), kind
    if kind == "boxface-gap":
        b = src.draw(f"{tag}.box", 0, len(m.boxes[lv]) - 1)
        blo, bhi = m.boxes[lv][b]
        side = src.draw(f"{tag}.side", 0, 1)
        face = lo + (blo[cn] if side == 0 else bhi[cn] + 1) * dx
        off = src.choice(f"{tag}.off", [0.25, -0.25, 0.45, -0.45, 0.1, -0.1]) * src.choice(f"{tag}.offdx", [dxf, dx])
        return min(hi, max(lo, face + off)), kind
    if kind == "random":
        pos = lo + (hi - lo) * src.draw(f"{tag}.frac", 1, 9999) / 10000.0
        # the tool takes a plane for "on a cell centre" with np.isclose (1e-5 relative to the
        # ABSOLUTE coordinate): positions in that grey zone are snapped onto the centre, so that
        # every drawn plane is either exactly on a centre or clearly (>= 1% of a cell) off it
        for l2 in range(m.nlev):
            d2 = m.dx[l2][cn]
            t = (pos - lo) / d2 - 0.5
            if abs(t - round(t)) < 1e-2:
                pos = lo + (round(t) + 0.5) * d2
                break
        return min(hi, max(lo, pos)), kind
    if kind == "domain-face":
        return (lo if src.draw(f"{tag}.which", 0, 1) == 0 else hi), kind
    if kind == "first-last-half":
        f = src.choice(f"{tag}.f", [0.25, 0.5, 0.75, 0.1])
        d_ = src.choice(f"{tag}.dxl", [dxf, m.dx[0][cn]])
        return (lo + f * d_ / 2 if src.draw(f"{tag}.which", 0, 1) == 0 else hi - f * d_ / 2), kind
    return None, kind


def plane_axes(cn):
    return [a for a in range(3) if a != cn]


def level_cover(m, lv, cn, pos, half=0.0):
    """For level lv: boolean in-plane map (level-lv cells, axes cx,cy) of cells that have a box
    whose normal extent, extended by `half` cells, contains pos."""
    cx, cy = plane_axes(cn)
    shape = (int(m.grid_sizes[lv][cx]), int(m.grid_sizes[lv][cy]))
    cov = np.zeros(shape, dtype=bool)
    dx = m.dx[lv][cn]
    lo0 = m.geo_low[cn]
    eps = 1e-9 * dx
    for (blo, bhi) in m.boxes[lv]:
        a = lo0 + blo[cn] * dx - half * dx
        e = lo0 + (bhi[cn] + 1) * dx + half * dx
        if a - eps <= pos <= e + eps:
            cov[blo[cx]:bhi[cx] + 1, blo[cy]:bhi[cy] + 1] = True
    return cov


def level_cell_field(m, lv, fidx):
    """Dense level-lv array (NaN where no box) of a field, plus presence mask."""
    shape = tuple(int(s) for s in m.grid_sizes[lv])
    arr = np.full(shape, np.nan)
    has = np.zeros(shape, dtype=bool)
    for b, (blo, bhi) in enumerate(m.boxes[lv]):
        sl = tuple(slice(int(l), int(h) + 1) for l, h in zip(blo, bhi))
        arr[sl] = m.data[lv][b][..., fidx]
        has[sl] = True
    return arr, has


def upsample(a, fac):
    return np.repeat(np.repeat(a, fac, axis=0), fac, axis=1)


def bracket(m, lv, cn, pos):
    """(k_left, k_right, on_centre, w) of the level-lv cells bracketing pos along cn; None where
    outside the outermost centres."""
    n = int(m.grid_sizes[lv][cn])
    dx = m.dx[lv][cn]
    t = (pos - m.geo_low[cn]) / dx - 0.5
    k = int(np.floor(t + 1e-9))
    if abs(t - round(t)) < 1e-7:
        k = int(round(t))
        if 0 <= k < n:
            return k, k, True
        return None
    if k < 0 or k + 1 > n - 1:
        return None
    return k, k + 1, False


def close(g, w, rtol, scale=None):
    """Closeness that treats equal infinities and NaN-vs-NaN as equal.  `scale` = magnitude of the
    interpolated samples: two samples of opposite sign nearly cancel, and the error of their convex
    combination is relative to the samples, not to the (tiny) result."""
    g = np.asarray(g, dtype=float)
    w = np.asarray(w, dtype=float)
    with np.errstate(all="ignore"):
        ref = np.abs(w) if scale is None else np.maximum(np.abs(w), np.where(np.isfinite(scale), scale, 0.0))
        return (np.abs(g - w) <= rtol * ref) | (g == w) | (np.isnan(g) & np.isnan(w))
