"""C07 - mandoline 3D slices interpolate the right samples at every pixel."""
import os

import numpy as np

from .. import world
from ..core import Violation
from . import common, mand
from .c08 import slice_call, same_dict

ID = "C07"
LEVEL = "exploration"
BUDGET = {"quick": 24000, "thorough": 480000}
WALL_CAP = {"quick": 600, "thorough": 5400}
RULE = ("case = designed 3D world (nested partially refined levels, non-zero origin, anisotropic cells, >= 4 cells per "
        "direction, scattered layout; fields aff_* = affine along each axis with one formula on every level, cst_* = "
        "unique per (level, in-plane cell) and constant along the axis, rnd = unique per cell) x normal x position from a "
        "designed set (cell centres of any level, cell faces, +-0.1/0.25/0.45 cell either side of box faces incl. level-"
        "jump faces, domain faces, first/last half cell, random, default None, outside the domain) x field list x level "
        "limit x {return, array}; every case is executed pooled under two np.empty poisons and serially. Oracles: (1) "
        "aff = a+b*pos at every pixel when the plane is >= half a coarsest cell from the domain faces (nearer: a+b*pos or "
        "a+b*c for c an outermost cell centre of a selected level), (2) at unambiguous pixels (the finest level with a box "
        "containing the point owns both bracketing cells and no finer box is within half a cell of the plane) rnd equals "
        "the linear interpolation of that level's two samples and cst its covering value (1e-12 relative), (3) bit-identical results under both poisons, (4) grid_level is a selected level with a box over "
        "the pixel within half a cell of the plane, (5) x,y = cell-centre grids, (6) default position = domain centre, "
        "outside positions raise, (7) serial == pool bitwise. non-trivial = plane not at the default and >= 2 levels or "
        ">= 2 boxes met; distinct = hash(world, normal, position, fields, limit, schedules)")
ASSUMPTIONS = ["pixels that are not 'unambiguous' are only subject to oracles 1, 3, 4, 7 (README documents the "
               "level-interface limitation)", "domains have >= 4 cells per direction"]

AX = "xyz"


def cli_slice(ctx, path, req, limit, serial, outfile, cn, pos):
    """The same request through the command line entry point (array format)."""
    from amr_kitchen.mandoline import cli
    from ..core import run_tool
    argv = ["mandoline", path, "-f", "array", "-v", *req, "-V", "0", "-o", outfile, "-n", str(cn)]
    if limit is not None:
        argv += ["-L", str(limit)]
    if pos is not None:
        argv += ["--position=" + repr(float(pos))]
    if serial:
        argv += ["-s"]
    o = run_tool(ctx, cli.main, argv=argv, label=f"mandoline {argv[1:]}")
    if o.ok:
        with np.load(outfile + ".npz", allow_pickle=True) as z:
            o.value = {k: z[k] for k in z.files}
    return o


def run_case(ctx):
    src = ctx.src
    common.draw_env(ctx)
    common.prelude(ctx)
    m = mand.designed_world(src)
    cn = src.draw("normal", 0, 2)
    path, hcwd, _abs, hmode = common.history_materialise(
        ctx, m, lambda p: [slice_call(ctx, p, ["rnd", "ext"], None, ser, "return", None, cn, None) for ser in (True, False)])
    limit = src.draw("limit.v", 0, m.nlev - 1) if src.flag("limit") else None
    L = m.nlev - 1 if limit is None else limit
    ax = AX[cn]
    core_fields = [f"aff_{ax}", f"cst_{ax}", "rnd", "ext", "grid_level"]
    extra = [f for f in m.fields if f not in core_fields]
    k = src.draw("fields.mode", 0, 3)
    if k == 0:
        req = list(core_fields)
    elif k == 1:
        req = ["all"]
    elif k == 2:
        idx = src.subset("fields.core", 5, min_size=1)
        req = [core_fields[i] for i in idx]
    else:
        req = [extra[src.draw("fields.x", 0, len(extra) - 1)]] + list(core_fields)
        if src.flag("fields.rev"):
            req.reverse()
    names = (m.fields + ["grid_level"]) if req == ["all"] else req
    fformat = src.choice("fformat", ["return", "array"])
    lo, hi = m.geo_low[cn], m.geo_high[cn]
    sig = {"property": ID, "fformat": fformat}
    outside = src.flag("outside", 8)
    if outside:
        d = src.choice("outside.d", [1e-6, 0.5, 3.0]) * (hi - lo)
        pos = lo - d if src.draw("outside.side", 0, 1) == 0 else hi + d
        o = slice_call(ctx, path, req, limit, True, "return", None, cn, pos)
        if o.ok:
            raise Violation({**sig, "oracle": "outside-not-refused"},
                            f"slice at {AX[cn]}={pos} outside the domain [{lo},{hi}] returned normally")
        ctx.case_key = common.key_of(["outside", m.summary(), cn, pos])
        ctx.sample = {"world": m.summary(), "normal": cn, "pos": pos, "arm": "outside"}
        ctx.nontrivial = True
        return
    pos, pkind = mand.draw_position(src, m, cn)
    sig["pos"] = pkind
    results = {}
    p0 = ctx.poison
    use_cli = fformat == "array" and bool(src.draw("cli", 0, 1))
    pre = ()
    if not use_cli and pos is not None and src.flag("object_reuse", 4):
        # (with pos=None a reused object deliberately keeps the position of its previous slice)
        # the same Mandoline object was used before for a slice with ANOTHER normal
        n0 = (cn + 1 + src.draw("object_reuse.n", 0, 1)) % 3
        pre = ((n0, m.geo_low[n0] + (m.geo_high[n0] - m.geo_low[n0]) * 0.37),)
    sig["entry"] = "cli" if use_cli else "api"
    for tag, serial, poison in (("pool/poisonA", False, p0), ("pool/poisonB", False, (p0 + 2) % 5),
                                ("serial/poisonA", True, p0)):
        ctx.poison = poison
        outfile = os.path.join(ctx.scratch, "out_" + tag.replace("/", "_"))
        if use_cli:
            o = cli_slice(ctx, path, req, limit, serial, outfile, cn, pos)
        else:
            o = slice_call(ctx, path, req, limit, serial, fformat, outfile, cn, pos, pre=pre)
        if not o.ok:
            raise Violation({**sig, "oracle": "slice-raises", **o.exc_sig()},
                            f"slice ({tag}) raised {o.exc!r}; normal={cn} pos={pos} ({pkind}) fields={req} limit={limit} "
                            f"world={m.summary()}")
        results[tag] = o.value
    ctx.poison = p0
    out = results["pool/poisonA"]
    what = f"normal={AX[cn]} pos={pos!r} ({pkind}) fields={req} limit={limit} world={m.summary()}"
    d = same_dict(out, results["pool/poisonB"])
    if d:
        raise Violation({**sig, "oracle": "poison-differential"},
                        f"result depends on uninitialised memory: {d}; {what}")
    d = same_dict(out, results["serial/poisonA"])
    if d:
        raise Violation({**sig, "oracle": "serial-vs-pool"}, f"serial and pooled results differ: {d}; {what}")
    centre = lo + (hi - lo) / 2
    if pos is None:
        used = float(np.asarray(out["slice_pos"]))
        if abs(used - centre) > 1e-12 * max(abs(lo), abs(hi), hi - lo):
            raise Violation({**sig, "oracle": "default-position"},
                            f"default position {used!r} is not the domain centre {centre!r} of [{lo},{hi}]; {what}")
        pos = centre
    cx, cy = mand.plane_axes(cn)
    nxf, nyf = int(m.grid_sizes[L][cx]), int(m.grid_sizes[L][cy])
    for key, d_ in (("x", cx), ("y", cy)):
        want = m.cell_centers(L, d_)
        got = np.asarray(out[key])
        if got.shape != want.shape or not np.allclose(got, want, rtol=1e-12, atol=1e-12 * (m.geo_high[d_] - m.geo_low[d_])):
            raise Violation({**sig, "oracle": "coordinates"}, f"{key} grid {got} != cell centres {want}; {what}")
    # per-level maps on the finest selected grid
    contains, near, own = [], [], []
    for lv in range(L + 1):
        fac = 2 ** (L - lv)
        contains.append(mand.upsample(mand.level_cover(m, lv, cn, pos, 0.0), fac))
        near.append(mand.upsample(mand.level_cover(m, lv, cn, pos, 0.5), fac))
    lstar = np.full((nxf, nyf), -1)
    for lv in range(L + 1):
        lstar[contains[lv]] = lv
    # ---- (4) grid level
    if "grid_level" in names:
        gl = np.asarray(out["grid_level"]).T
        if gl.shape != (nxf, nyf):
            raise Violation({**sig, "oracle": "shape"}, f"grid_level has shape {gl.T.shape}, want {(nyf, nxf)}; {what}")
        ok = np.zeros((nxf, nyf), dtype=bool)
        for lv in range(L + 1):
            ok |= (gl == lv) & near[lv]
        if not ok.all():
            bad = np.argwhere(~ok)[0]
            raise Violation({**sig, "oracle": "grid_level"},
                            f"grid_level at pixel {tuple(bad)} is {gl[tuple(bad)]!r}: not a selected level with a box "
                            f"over that pixel at the plane; {what}")
    # ---- (1) affine
    an = f"aff_{ax}"
    if an in names:
        got = np.asarray(out[an]).T
        if got.shape != (nxf, nyf):
            raise Violation({**sig, "oracle": "shape"}, f"{an} has shape {got.T.shape}, want {(nyf, nxf)}; {what}")
        val = mand.aff_value(m, cn, pos)
        tol = 1e-9 * (abs(mand.A0) + abs(mand.B0))
        okm = np.abs(got - val) <= tol
        half0 = m.dx[0][cn] / 2
        interior = (lo + half0 * (1 + 1e-9) <= pos <= hi - half0 * (1 + 1e-9))
        if not interior:
            for lv in range(L + 1):
                c = lo + m.dx[lv][cn] / 2 if pos < centre else hi - m.dx[lv][cn] / 2
                okm |= np.abs(got - mand.aff_value(m, cn, c)) <= tol
        if not okm.all():
            bad = tuple(np.argwhere(~okm)[0])
            raise Violation({**sig, "oracle": "affine", "interior": bool(interior), "level_at_pixel": int(lstar[bad]) if lstar[bad] < 1 else 1},
                            f"{an} at pixel {bad} is {got[bad]!r}, a field affine along the normal must give {val!r} "
                            f"(finest level containing the point there: {lstar[bad]}); {what}")
    # ---- (2) exact bracketing at unambiguous pixels
    for fname, fidx in ((f"cst_{ax}", m.fields.index(f"cst_{ax}")), ("rnd", m.fields.index("rnd")),
                        ("ext", m.fields.index("ext"))):
        if fname not in names:
            continue
        got = np.asarray(out[fname]).T
        if got.shape != (nxf, nyf):
            raise Violation({**sig, "oracle": "shape"}, f"{fname} has shape {got.T.shape}, want {(nyf, nxf)}; {what}")
        checked = 0
        for lv in range(L + 1):
            fac = 2 ** (L - lv)
            arr, has = mand.level_cell_field(m, lv, fidx)
            br = mand.bracket(m, lv, cn, pos)
            n = int(m.grid_sizes[lv][cn])
            if br is None:
                kk = 0 if pos < centre else n - 1
                kl = kr = kk
                exact = True
            else:
                kl, kr, exact = br
            take = lambda a, k_: np.take(a, k_, axis=cn)
            vl, vr = take(arr, kl), take(arr, kr)
            hl, hr = take(has, kl), take(has, kr)
            if exact:
                want = vr
            else:
                nl = lo + (kl + 0.5) * m.dx[lv][cn]
                nr = lo + (kr + 0.5) * m.dx[lv][cn]
                with np.errstate(all="ignore"):
                    want = (vl * (nr - pos) + vr * (pos - nl)) / (nr - nl)
            if fname == "ext" and exact:
                continue
            sel = mand.upsample(hl & hr, fac) & (lstar == lv)
            for l2 in range(lv + 1, L + 1):
                sel &= ~near[l2]
            if not sel.any():
                continue
            wantf = mand.upsample(want, fac)
            with np.errstate(all="ignore"):
                scalef = mand.upsample(np.maximum(np.abs(vl), np.abs(vr)), fac)
            # 1e-12 relative also on cell centres: a neighbouring box exactly half a cell away may
            # legitimately contribute a zero-weight sample, which costs an ulp
            okm = mand.close(got[sel], wantf[sel], 1e-11, scalef[sel])
            checked += int(sel.sum())
            if not okm.all():
                bad = tuple(np.argwhere(sel)[np.argwhere(~okm)[0][0]])
                raise Violation({**sig, "oracle": "bracketing", "field": fname.split("_")[0], "on_centre": bool(exact),
                                 "level": min(lv, 1)},
                                f"{fname} at unambiguous pixel {bad} is {got[bad]!r}, the level-{lv} samples bracketing "
                                f"the plane give {wantf[bad]!r}; {what}")
        ctx.stats["unambiguous_pixels_checked"] += checked
    met = sum(int(mand.level_cover(m, lv, cn, pos, 0.0).any()) for lv in range(L + 1))
    if pkind != "default" and (met >= 2 or len(m.boxes[0]) >= 2):
        ctx.nontrivial = True
    ctx.stats[f"poskind.{pkind}"] += 1
    ctx.case_key = common.key_of([m.summary(), cn, pos, req, limit, fformat, sorted(map(str, ctx.sigs))])
    ctx.sample = {"world": m.summary(), "normal": AX[cn], "pos": pos, "pos_kind": pkind, "fields": req,
                  "limit": limit, "fformat": fformat}


def evidence_extra(stats):
    return {"unambiguous_pixels_checked": stats.get("unambiguous_pixels_checked", 0),
            "position_kinds": {k[8:]: v for k, v in stats.items() if k.startswith("poskind.")}}
