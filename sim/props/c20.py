"""C20 - whatever taste accepts, the reader can read completely and consistently."""
import os
import shutil

import numpy as np

from .. import core, world, damage
from ..core import Violation, run_tool
from ..reader import FormatError
from . import common
from .c04 import taste_both, enumerate_plans

ID = "C20"
LEVEL = "fault_enumeration"
BUDGET = {"quick": 800, "thorough": 16000}
WALL_CAP = {"quick": 600, "thorough": 5400}
RULE = ("case = generated 2D/3D plotfile x drawn level limit x all C04 storage-fault operators plus accept-biased "
        "edits (whitespace in level-header lines, '+0'/zero-padded offset spellings, FabOnDisk positions moved by "
        "1/5/8/64 bytes or into a payload, FabOnDisk keyword changed, FAB descriptor prefix edited, consistently "
        "permuted box order, garbage in the min/max tables) at every applicable site singly (all sites below the "
        "per-case cap, drawn subset above) plus drawn pairs, plus the undamaged tree; whenever "
        "bool(Taster(dir, nofail=True)) is true, every box of every validated level is read through "
        "PlotfileCooker(dir)[:][lv][b] (and one multi-box selection through the pool) and must return without "
        "error, with shape (index extent from the level header, nfields), bit-equal to the payload of the FAB the "
        "independent scanner finds (by keyword search) in the recorded file under that index range, and that FAB "
        "must be complete (its payload ends before the next FAB header / end of file). evaluations = cases (worlds); "
        "non-trivial = an edited tree was accepted by taste and read back; distinct = hash(world, limit, sites)")
ASSUMPTIONS = ["nothing is demanded when taste says bad", "when no FAB in the recorded file names the box's index "
               "range the reader's answer is not judged here (that is C04's business)"]


def read_back(ctx, sig, tree, m, limit, lim_arg, descs):
    from amr_kitchen import PlotfileCooker
    kw = {} if lim_arg is None else {"limit_level": lim_arg}
    o = run_tool(ctx, lambda: PlotfileCooker(tree, **kw))
    what = f"tree accepted by taste after {descs}"
    if not o.ok:
        raise Violation({**sig, "oracle": "reader-cannot-open", **o.exc_sig()},
                        f"{what}: PlotfileCooker raised {o.exc!r}")
    pck = o.value
    nf = len(m.fields)
    for lv in range(limit + 1):
        ldir = os.path.join(tree, f"Level_{lv}")
        try:
            nfh, idx, fabs = damage.lenient_level_header(os.path.join(ldir, "Cell_H"))
        except FormatError as e:
            raise Violation({**sig, "oracle": "accepted-but-level-header-unreadable"},
                            f"{what}: taste accepted, but the level header of level {lv} cannot be parsed: {e}")
        expected = []
        bulk = None
        if len(fabs) > 16:
            # many boxes: one pooled selection instead of box-by-box reads
            ob = run_tool(ctx, lambda: pck[:][lv][:])
            if not ob.ok:
                raise Violation({**sig, "oracle": "accepted-but-unreadable", **ob.exc_sig()},
                                f"{what}: reading all boxes of level {lv} raised {ob.exc!r}")
            bulk = ob.value
        for b, (fname, off) in enumerate(fabs):
            fp = os.path.join(ldir, fname)
            want = None
            if os.path.isfile(fp):
                scanned, fsize = damage.scan_by_search(fp)
                match = [s for s in scanned if (s[3], s[4]) == idx[b]]
                if len(match) == 1:
                    pos, hl, nb, lo, hi, nc = match[0]
                    nxt = min([s[0] for s in scanned if s[0] > pos] + [fsize])
                    if pos + hl + nb > nxt:
                        # the FAB that names this box is cut short: the next FAB header (or the end of the
                        # file) comes before its last value, so no reader can return "the values of the FAB"
                        raise Violation({**sig, "oracle": "accepted-but-fab-incomplete"},
                                        f"{what}: level {lv} box {b}: the FAB named {idx[b]} in {fname} at byte {pos} "
                                        f"needs {nb} payload bytes but only {nxt - pos - hl} lie before the next FAB "
                                        f"header / end of file; what the reader returns for it is not its payload")
                    with core._REAL_OPEN(fp, "rb") as f:
                        f.seek(pos + hl)
                        raw = f.read(nb)
                    shape = tuple(h - l + 1 for l, h in zip(lo, hi))
                    want = np.frombuffer(raw, dtype="<f8").reshape(shape + (nc,), order="F")
            expected.append(want)
            if bulk is not None:
                got = bulk[b] if b < len(bulk) else None
            else:
                o = run_tool(ctx, lambda: pck[:][lv][b])
                if not o.ok:
                    raise Violation({**sig, "oracle": "accepted-but-unreadable", **o.exc_sig()},
                                    f"{what}: reading level {lv} box {b} raised {o.exc!r}")
                got = o.value
            ext = tuple(h - l + 1 for l, h in zip(*idx[b])) + (nfh,)
            if not isinstance(got, np.ndarray) or got.shape != ext:
                raise Violation({**sig, "oracle": "accepted-but-wrong-shape"},
                                f"{what}: level {lv} box {b} read with shape {getattr(got, 'shape', None)}, "
                                f"level header declares {ext}")
            if want is None:
                ctx.probe("no_unique_fab_for_box")
                continue
            if not world.same_bits(got, want):
                raise Violation({**sig, "oracle": "accepted-but-wrong-values"},
                                f"{what}: level {lv} box {b} does not hold the payload of the FAB named "
                                f"{idx[b]} in {fname}")
            ctx.stats["boxes_read_back"] += 1
        if 2 <= len(fabs) <= 16:
            o = run_tool(ctx, lambda: pck[:][lv][:])
            if not o.ok:
                raise Violation({**sig, "oracle": "accepted-but-unreadable", **o.exc_sig()},
                                f"{what}: reading all boxes of level {lv} raised {o.exc!r}")
            for b, (g, w) in enumerate(zip(o.value, expected)):
                if w is not None and not world.same_bits(g, w):
                    raise Violation({**sig, "oracle": "accepted-but-wrong-values", "via": "pool"},
                                    f"{what}: level {lv} box {b} read through the pool differs from its FAB")


def run_case(ctx):
    src = ctx.src
    common.draw_env(ctx)
    common.prelude(ctx)
    m = world.gen_world(src, max_boxes=12, scale=("manyboxes", "farcorner", "manyfields", "longdomain", "manyfiles"), scale_rate=40)
    master = os.path.join(ctx.scratch, "master")
    world.write_plotfile(m, master)
    limit = m.nlev - 1
    lim_arg = None
    wide = getattr(m, "scale_cls", None) == "manyfiles"       # (hundreds of tasks per validation: fewer trees)
    far = getattr(m, "scale_cls", None) == "longdomain"      # (only its finest levels have the large indexes)
    if m.nlev > 1 and src.flag("limit") and not far:
        limit = src.draw("limit.v", 0, m.nlev - 1)
        lim_arg = limit
    sched_seed = src.draw("sched", 0, 9999)
    quick = ctx.tier == "quick"
    plans = [[]] + enumerate_plans(ctx, m, src, coords=False, accept_biased=True,
                                   cap_single=2000 if far else ((20 if wide else 60) if quick else 400), n_pairs=(2 if wide else 8) if quick else 60)
    keys = []
    for n, plan in enumerate(plans):
        # every tree takes the SAME path in turn (anything remembered per path is stale then)
        tree = os.path.join(ctx.scratch, "tree")
        shutil.rmtree(tree, ignore_errors=True)
        shutil.copytree(master, tree)
        descs = [d for d in (damage.apply(tree, m, op, args) for op, args in plan) if d]
        if plan and not descs:
            shutil.rmtree(tree, ignore_errors=True)
            continue
        core.age_tree(ctx, tree)
        opname = "+".join(op for op, _ in plan) or "pristine"
        ctx.stats["trees"] += 1
        from amr_kitchen.taste import Taster
        kw = {} if lim_arg is None else {"limit_level": lim_arg}
        from ..choice import RandomSource
        from .c04 import ConstSource
        ctx.pool_src = RandomSource(sched_seed + n) if sched_seed else ConstSource()
        ctx.pool_seq = 0
        ctx.reset_pools()
        try:
            o = run_tool(ctx, lambda: bool(Taster(tree, nofail=True, verbose=0, **kw)))
            ctx.ev("tree", n, opname, [a for _, a in plan], "taste", o.ok and o.value)
            if o.ok and o.value is True:
                ctx.stats["accepted"] += 1
                if plan:
                    ctx.nontrivial = True
                    ctx.stats["accepted_edited"] += 1
                    ctx.stats[f"accepted.{opname}"] += 1
                sig = {"property": ID, "op": opname}
                read_back(ctx, sig, tree, m, limit, lim_arg, descs)
            else:
                ctx.stats["rejected"] += 1
        finally:
            ctx.pool_src = None
            ctx.reset_pools()
        keys.append((opname, [a for _, a in plan]))
        shutil.rmtree(tree, ignore_errors=True)
    ctx.case_key = common.key_of([m.summary(), limit, keys])
    ctx.sample = {"world": m.summary(), "limit": limit, "trees": len(plans)}


def evidence_extra(stats):
    out = {k: stats.get(k, 0) for k in ("trees", "accepted", "accepted_edited", "rejected", "boxes_read_back")}
    out["accepted_by_operator"] = {k[len("accepted."):]: v for k, v in stats.items() if k.startswith("accepted.")}
    return out
