"""C13 - tools never touch their inputs and report failures instead of returning."""
import os
import shutil

from .. import core
from ..choice import RandomSource, ChoiceSource
from ..core import Violation, HarnessError
from . import common, tools

ID = "C13"
LEVEL = "fault_enumeration"
BUDGET = {"quick": 6400, "thorough": 64000}
WALL_CAP = {"quick": 600, "thorough": 5400}
TOOLS = ["colander", "combine", "chef", "mandoline", "whip", "marinate", "chk2plt",
         "taste", "menu", "minuterie", "pestle"]
RULE = ("case = tool in {colander, combine, chef(user recipe), mandoline(array/plotfile), whip, marinate, chk2plt, "
        "taste, menu, minuterie, pestle} x invocation form (API/CLI, explicit rel/abs or default output, input given "
        "abs/rel/with trailing slash or as '.' from inside it, cwd = work dir or the input's parent) x arm in {clean, unknown field, "
        "unreadable input (Header / a level header / a binary: EIO or EACCES at open, or EIO part-way through the file - "
        "first byte, after the first line, middle, last byte, at/inside the header of a later FAB; np.fromfile then returns "
        "the short array fread yields), write faults, rerun (the request once more over its own output; for colander "
        "after another selection; or after the same request in another run directory under FORK pools)}. Write-fault arm: a "
        "fault-free pilot run numbers every open-for-write/write/close/mkdir site of the run (parent and pool "
        "workers, same seeded schedule), then each site is hit once per applicable kind (EACCES/ENOSPC/EMFILE at "
        "open, EIO/ENOSPC/torn prefix/short count at write, EIO at close, ENOSPC/EACCES at mkdir; transient or sticky) up to the "
        "per-case cap, a drawn subset above it; kind CRASH = the process is killed at that open/write (a BaseException no "
        "handler is meant to see): only the input/confinement invariants are demanded then. Checked on every run: audit log (writes only under the requested "
        "output or, for defaults, beside and never inside an input), before/after snapshots of every input tree "
        "(content, size, mode, mtime, listing), and when a fault fired: exception / non-zero exit, or genuine "
        "recovery (output byte-identical to the pilot). evaluations = tool executions; non-trivial = a fault fired "
        "inside the operation, or a default/trailing-slash invocation form; distinct = hash(tool, options, form, arm, site, kind)")
ASSUMPTIONS = ["write-effects are observed through sys.addaudithook and builtins.open/io.open/os.mkdir proxies; "
               "C-level writes that bypass both (none known in the tools) would be missed",
               "part-way read faults are placed by byte position in one drawn input file; reads the tools do "
               "through np.fromfile are intercepted in the np proxy of the package (other C-level readers would bypass it)"]


class ConstSource(ChoiceSource):
    def _next(self, label, lo, hi):
        return lo


def under(p, root):
    return p == root or p.startswith(root.rstrip(os.sep) + os.sep)


TOLERATED = ("/dev/null",)


def tolerated(p):
    if p in TOLERATED:
        return True
    if "amrk-mplconfig" in p or "/.cache/" in p or "/.config/matplotlib" in p or "fontlist" in p:
        return True
    return False


class Run:
    pass


def execute(ctx, tool, k, sched_seed, plan=None, sticky=False, read_faults=None, mutate=None, again=None,
            keep_pools=False):
    """One execution of the drawn tool case in a fresh run directory (`again` = an earlier Run: the same
    request is executed once more where that run left everything - inputs, cwd and its own output)."""
    root = os.path.join(ctx.scratch, f"run{k}")
    inputs = tool.prepare_root(root) if again is None else list(again.inputs)
    if mutate:
        mutate(tool)
    snaps = [common.snapshot(i) for i in inputs]
    ctx.pool_src = RandomSource(sched_seed) if sched_seed else ConstSource()
    ctx.pool_seq = 0
    if not keep_pools:
        ctx.reset_pools()
    ctx.fault_plan = dict(plan or {})
    ctx.fault_sticky = sticky
    ctx.sticky_paths = set()
    ctx.sticky_all = False
    ctx.site_counter = 0
    ctx.sites = []
    ctx.faults_fired = []
    ctx.read_fault_paths = dict(read_faults or {})
    w0 = len(ctx.writes)
    ctx.ev("run", k, "plan", sorted((plan or {}).items()), "sticky", sticky)
    try:
        o = tool.call(ctx, root)
    finally:
        ctx.fault_plan = {}
        ctx.read_fault_paths = {}
        ctx.pool_src = None
    ctx.stats["tool_runs"] += 1
    r = Run()
    r.root = root
    r.inputs = inputs
    r.outcome = o
    r.sites = list(ctx.sites)
    r.fired = list(ctx.faults_fired)
    r.writes = ctx.writes[w0:]
    r.snap_diffs = [common.snap_diff(a, common.snapshot(i)) for a, i in zip(snaps, inputs)]
    # digest of everything the run produced outside its inputs
    dig = {}
    for dp, dn, fn in os.walk(root):
        dn.sort()
        dn[:] = [d for d in dn if os.path.join(dp, d) not in inputs]
        for f in sorted(fn):
            p = os.path.join(dp, f)
            if "recipes" in os.path.relpath(p, root).split(os.sep)[:2] and "work" in os.path.relpath(p, root):
                continue
            with core._REAL_OPEN(p, "rb") as fh:
                import hashlib
                dig[os.path.relpath(p, root)] = hashlib.sha256(fh.read()).hexdigest()
    if not tool.writer:
        # the product of a read-only tool is its report
        import hashlib
        dig["<stdout>"] = hashlib.sha256(ctx.clean(o.out).replace(f"run{k}", "runK").encode()).hexdigest()
    r.digest = dig
    r.cwd = tool.cwd(root)
    r.out_abs = getattr(tool, "out_abs", None)
    return r


def check_run(ctx, tool, r, sig, what):
    """I1 + I2 on one run."""
    for inp, d in zip(r.inputs, r.snap_diffs):
        if d:
            ev = [(k, ctx.rel(p)) for (a, k, p) in r.writes if under(p, inp)][:4]
            raise Violation({**sig, "oracle": "I2-input-modified", "form_in": tool.opts.get("in_form"),
                             "form_out": tool.opts.get("out")},
                            f"{what}: input tree {ctx.rel(inp)} changed: {d[:5]} (audited write-effects there: {ev}); "
                            f"form={tool.describe()}")
    removed = {p for (a, k, p) in r.writes if k in ("os.remove", "os.rmdir", "shutil.rmtree", "os.rename:src")}
    for (actor, kind, p) in r.writes:
        if tolerated(p):
            continue
        inside_input = any(under(p, i) for i in r.inputs)
        if inside_input:
            # attempted (possibly failed) write inside an input; the snapshots above are the
            # ground truth for "modified", so an attempt that changed nothing is not reported
            continue
        if not (os.path.lexists(p) or p in removed):
            continue
        if r.out_abs is not None:
            if not (under(p, r.out_abs) or p.startswith(r.out_abs + ".")):
                raise Violation({**sig, "oracle": "I1-write-outside-output", "form_out": tool.opts.get("out")},
                                f"{what}: {kind} on {ctx.rel(p)} by {actor} lies outside the requested output "
                                f"{ctx.rel(r.out_abs)}; form={tool.describe()}")
        else:
            parents = {os.path.dirname(i.rstrip(os.sep)) for i in r.inputs}
            if not (any(under(p, d) for d in parents) or under(p, r.cwd)):
                raise Violation({**sig, "oracle": "I1-default-output-location", "form_in": tool.opts.get("in_form")},
                                f"{what}: {kind} on {ctx.rel(p)} is neither beside an input nor in the cwd; "
                                f"form={tool.describe()}")
    if not tool.writer:
        real = [(k, ctx.rel(p)) for (a, k, p) in r.writes if not tolerated(p) and (os.path.lexists(p) or p in removed)]
        if real:
            raise Violation({**sig, "oracle": "I1-readonly-tool-writes"},
                            f"{what}: read-only tool wrote {real[:4]}")


def run_case(ctx):
    src = ctx.src
    common.draw_env(ctx)
    name = src.choice("tool", TOOLS)
    if name == "chk2plt":
        from .c17 import Chk2pltT
        tool = Chk2pltT()
    else:
        tool = tools.make_tool(name)
    tool.draw(ctx, src)
    arms = [("faults", 6), ("clean", 1), ("unreadable", 6)]      # (an unreadable-input case costs a tenth of a fault case)
    if name in ("mandoline", "whip", "pestle"):
        arms.append(("unknown", 2))
    if tool.writer:
        arms.append(("rerun", 1))
    if not tool.writer:
        arms = [("clean", 1), ("unreadable", 3)] + ([("unknown", 2)] if name == "pestle" else [])
    arm = src.weighted("arm", arms)
    if name == "mandoline" and ctx.tier == "thorough" and src.flag("image", 10):
        # image output (matplotlib, dpi=500: seconds per figure): thorough tier only, a single field,
        # clean / one-fault arms only; the writes of the PNG encoder go through the same seams
        tool.fformat = "image"
        tool.fields = [f for f in tool.fields if f not in ("all", "grid_level")][:1] or [tool.m.fields[0]]
        tool.opts.update(fformat="image", fields=tool.fields)
        tool.preexisting = False
        arm = "clean"
        ctx.probe("mandoline_image_format")
    sched_seed = src.draw("sched", 0, 9999)
    sig = {"property": ID, "tool": name, "entry": "cli" if tool.opts.get("cli") else "api"}
    form_special = tool.opts.get("out") == "default" or str(tool.opts.get("in_form", "")).endswith("/")
    keybase = [tool.describe(), arm]

    pilot = execute(ctx, tool, 0, sched_seed)
    check_run(ctx, tool, pilot, sig, "fault-free run")
    if arm == "rerun":
        # the same request once more, over the output the first run left behind (a re-submitted job): whatever
        # the first run shares with its input (links, handles, caches) must not let the second one reach into it
        first = pilot
        if hasattr(tool, "varied") and src.flag("rerun.varied"):
            # ... or a different request of the same tool wrote that output first (another selection)
            shutil.rmtree(pilot.root, ignore_errors=True)
            first = execute(ctx, tool.varied(), 0, sched_seed)
            check_run(ctx, tool, first, {**sig, "arm": "rerun-first"}, "earlier run with another selection")
            ctx.probe("rerun_after_varied_request")
        elif name in ("chef", "combine", "colander", "mandoline", "whip", "chk2plt") and src.flag("rerun.elsewhere", 3):
            # ... or the same tool served the same request before, in this process, in ANOTHER run directory,
            # everything named relatively; FORK pools: whatever workers outlive the first run keep its directory
            tool.opts["in_form"] = "rel"
            if tool.opts.get("out") == "abs":
                tool.opts["out"] = "rel"
            shutil.rmtree(pilot.root, ignore_errors=True)
            old_fork, ctx.fork_mode = ctx.fork_mode, True
            try:
                first = execute(ctx, tool, 5, sched_seed)
                check_run(ctx, tool, first, {**sig, "arm": "rerun-elsewhere-first"}, "earlier run in another directory")
                r2 = execute(ctx, tool, 6, sched_seed + 1, keep_pools=True)
                check_run(ctx, tool, r2, {**sig, "arm": "rerun-elsewhere"}, "the same request in a second run directory")
                if first.outcome.ok and r2.outcome.ok and first.digest != r2.digest and tool.writer:
                    raise Violation({**sig, "oracle": "second-directory-product-differs", "arm": "rerun-elsewhere"},
                                    f"{name}: the same request on the same input, served in a second run directory after "
                                    f"a first one, returned normally with another product; form={tool.describe()}")
            finally:
                ctx.fork_mode = old_fork
                ctx.reset_pools()
            ctx.nontrivial = True
            ctx.probe("rerun_in_another_directory")
            shutil.rmtree(first.root, ignore_errors=True)
            shutil.rmtree(r2.root, ignore_errors=True)
            ctx.case_key = common.key_of(keybase + ["elsewhere"])
            return
        r2 = execute(ctx, tool, 0, sched_seed + 1, again=first)
        check_run(ctx, tool, r2, {**sig, "arm": "rerun"}, "second run of the same request")
        ctx.nontrivial = True
        ctx.probe("rerun_over_own_output")
        arm = "clean"
    shutil.rmtree(pilot.root, ignore_errors=True)
    if form_special:
        ctx.nontrivial = True
    ctx.sample = {"tool": tool.describe(), "arm": arm, "pilot_ok": pilot.outcome.ok,
                  "sites": len(pilot.sites)}
    if arm == "clean":
        ctx.case_key = common.key_of(keybase)
        return
    if arm == "unknown":
        def mut(t):
            if hasattr(t, "fields"):
                t.fields = ["no_such_field"]
            t.var = "no_such_field"
        r = execute(ctx, tool, 1, sched_seed, mutate=mut)
        # the mutation is applied to the tool object: restore afterwards is unnecessary (case ends)
        check_run(ctx, tool, r, sig, "unknown-field run")
        if not r.outcome.failed_visibly():
            raise Violation({**sig, "oracle": "failure-not-reported", "arm": "unknown-field"},
                            f"{name} asked for a field that does not exist returned normally "
                            f"(exit={r.outcome.exit_code!r}, value={type(r.outcome.value).__name__}); form={tool.describe()}")
        ctx.nontrivial = True
        ctx.case_key = common.key_of(keybase)
        return
    if arm == "unreadable":
        # choose the file by walking a materialised copy
        probe_root = os.path.join(ctx.scratch, "probe")
        inputs = tool.prepare_root(probe_root)
        files = []
        sizes = {}
        for i in inputs:
            for dp, dn, fn in os.walk(i):
                dn.sort()
                for f in sorted(fn):
                    files.append(os.path.relpath(os.path.join(dp, f), probe_root))
                    sizes[files[-1]] = os.path.getsize(os.path.join(dp, f))
        shutil.rmtree(probe_root, ignore_errors=True)
        heads = [f for f in files if f.endswith("Header")]
        lvh = [f for f in files if f.endswith("_H")]
        bins = [f for f in files if "_D_" in f]
        kind = src.choice("unreadable.kind", ["EIO", "EACCES", "EIO-MID", "EIO-MID"])
        # (part-way faults are mostly placed in binary files: that is where sequential readers look for the
        # next box and for the end of the file)
        cls = src.choice("unreadable.class", ["Header", "level-header", "binary"] +
                         (["binary", "binary"] if kind == "EIO-MID" else []))
        pool_ = {"Header": heads, "level-header": lvh, "binary": bins}[cls] or heads
        if kind == "EIO-MID" and cls == "binary" and len(pool_) > 1:
            # (larger binaries first and two draws, the smaller index wins: files holding several FABs - where a
            # sequential reader goes on looking for the next box - are favoured)
            pool_ = sorted(pool_, key=lambda f: (-sizes.get(f, 0), f))
            rel = pool_[min(src.draw("unreadable.which", 0, len(pool_) - 1), src.draw("unreadable.which2", 0, len(pool_) - 1))]
        else:
            rel = pool_[src.draw("unreadable.which", 0, len(pool_) - 1)]
        spec = kind
        if kind == "EIO-MID":
            # the file opens, but becomes unreadable part-way: reads before that point are served (short),
            # the read that needs the bad byte gets EIO (np.fromfile: a short array, as fread gives it)
            where = src.choice("unreadable.where", ["middle", "last-byte", "after-first-line", "first-byte",
                                                    "fab-header", "fab-header", "fab-header", "fab-header+5"])
            if where.startswith("fab-header"):
                where = f"fab-header:{src.draw('unreadable.fab', 0, 5)}:{5 if where.endswith('+5') else 0}"
            spec = (kind, where)
            kind = f"{kind}@{where}"
        root1 = os.path.join(ctx.scratch, "run1")
        r = execute(ctx, tool, 1, sched_seed, read_faults={os.path.join(root1, rel): spec})
        check_run(ctx, tool, r, sig, f"unreadable {rel}")
        if r.fired:
            ctx.nontrivial = True
            if not r.outcome.failed_visibly() and r.digest != pilot.digest:
                raise Violation({**sig, "oracle": "failure-not-reported", "arm": "unreadable-input", "file": cls,
                                 "fault": kind.split("@")[0]},
                                f"{name}: reading {rel} failed with {kind} but the tool returned normally "
                                f"(exit={r.outcome.exit_code!r}) with a different/missing output; form={tool.describe()}")
            if not r.outcome.failed_visibly():
                ctx.probe("recovered_from_read_fault")
        ctx.case_key = common.key_of(keybase + [rel, kind, bool(r.fired)])
        return
    # ---- write-fault enumeration
    if not pilot.outcome.ok:
        # the fault-free request itself fails (visible): nothing to enumerate
        ctx.probe("pilot_fails_visibly")
        ctx.case_key = common.key_of(keybase + ["pilot-fails"])
        return
    plans = []
    for idx, (kind, rp, actor) in enumerate(pilot.sites):
        for fk in core.FAULT_KINDS[kind]:
            plans.append((idx, kind, fk))
    cap = 30 if ctx.tier == "quick" else 150
    ctx.stats["sites_total"] += len(pilot.sites)
    if len(plans) > cap:
        rng_seed = src.draw("plans.subset", 0, 9999)
        import random
        rnd = random.Random(rng_seed)
        plans = sorted(rnd.sample(plans, cap))
        ctx.probe("site_enumeration_capped")
    else:
        ctx.probe("site_enumeration_complete")
    sticky = bool(src.draw("sticky", 0, 1))
    keys = []
    for n, (idx, kind, fk) in enumerate(plans):
        r = execute(ctx, tool, n + 1, sched_seed, plan={idx: fk}, sticky=sticky)
        what = f"fault {fk} at site #{idx} ({kind} {pilot.sites[idx][1]} by {pilot.sites[idx][2]})"
        fsig = {**sig, "site": kind, "fault": fk}
        try:
            check_run(ctx, tool, r, fsig, what)
            if r.fired:
                ctx.nontrivial = True
                ctx.stats["faulted_runs"] += 1
                if fk == "CRASH":
                    # the process was killed at that point: nobody is left to be told; what must
                    # still hold is checked above (inputs untouched, writes confined)
                    ctx.probe("crash_points")
                elif not r.outcome.failed_visibly():
                    if r.digest == pilot.digest:
                        ctx.probe("recovered_from_fault")
                    else:
                        diff = sorted(set(r.digest.items()) ^ set(pilot.digest.items()))[:4]
                        raise Violation({**fsig, "oracle": "failure-not-reported", "arm": "write-fault",
                                         "actor": "worker" if pilot.sites[idx][2] != "parent" else "parent"},
                                        f"{name}: {what} fired but the tool returned normally "
                                        f"(exit={r.outcome.exit_code!r}) and its output differs from the fault-free "
                                        f"run in {[d[0] for d in diff]}; form={tool.describe()}")
            else:
                ctx.probe("planned_fault_not_reached")
        finally:
            shutil.rmtree(r.root, ignore_errors=True)
        keys.append((idx, kind, fk))
    ctx.case_key = common.key_of(keybase + keys + [sticky])


def evidence_extra(stats):
    return {"tool_executions": stats.get("tool_runs", 0), "faulted_runs": stats.get("faulted_runs", 0),
            "fault_sites_seen_in_pilots": stats.get("sites_total", 0)}
