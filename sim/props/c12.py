"""C12 - results do not depend on worker count, task order or serial/parallel mode."""
import hashlib
import math
import os
import shutil

import numpy as np

from .. import core, world
from ..choice import ChoiceSource, RandomSource, perm_from_index
from ..core import Violation, run_tool
from ..pool import _feasible_order
from . import common, tools

ID = "C12"
LEVEL = "exploration"
BUDGET = {"quick": 3200, "thorough": 32000}
WALL_CAP = {"quick": 600, "thorough": 5400}
TOOLS = ["reader-select", "reader-iterate", "taste", "colander", "combine", "chef", "mandoline",
         "pestle", "whip", "chk2plt", "chef-history"]
RULE = ("case = pooled entry point in {reader selections, level iteration, taste, colander, combine, chef, mandoline "
        "2D/3D (return/array/plotfile), pestle, whip, chk2plt, and a Cantera cook preceded in the same process by "
        "other parallel cooks under FORK pools with the modelled pathos cache} on a generated input; the reference execution is the "
        "serial mode where one exists (chef, mandoline, reader selections: one box at a time by integer index) and "
        "the FIFO one-worker schedule otherwise; a quarter of the reader cases run under FORK pools after an earlier "
        "parallel read of a same-named plotfile in another working directory; variants: for each "
        "pool call of the run in turn and each W in {1,2,n,16}, if the call has <= 4 dispatch units ALL feasible "
        "completion orders (deduplicated) x {lazy, eager} delivery for imap calls while the other calls stay FIFO "
        "(capped per case in the quick tier, the cap is reported), plus drawn fully random schedules (random W, order, "
        "pull/delivery timing) for every case and for calls above 4 units; every variant must produce byte-identical "
        "files (.npz under the frozen clock), bitwise-identical return values / printed results and the same "
        "success/failure class (for taste on a tree with two defects in two binary files also the text of the report); "
        "the mandoline tool case may be preceded by a serial slice of another field by another object; invariant I3 (tasks of one call write disjoint files) is checked on every call. "
        "evaluations = cases; non-trivial = at least one variant ran a call with >=2 units in a non-FIFO completion "
        "order or with W>1; distinct = hash(tool, options, world, set of schedule signatures)")
ASSUMPTIONS = ["whole tasks are the unit of interleaving (sound while I3 holds; I3 is checked)",
               "deterministic-but-wrong results are the business of C05-C17, not of C12"]

W_INDEX = {1: 0, 2: 2, 3: 5, 4: 7, 16: 8, 7: 9}   # value -> draw index of SimPool's weighted W draw


class Scripted(ChoiceSource):
    """Schedule source: scripted values by label, FIFO (lo) for everything else."""

    def __init__(self, script):
        super().__init__()
        self.script = dict(script)

    def _next(self, label, lo, hi):
        v = self.script.get(label, lo)
        return min(max(v, lo), hi)


def val_digest(v):
    h = hashlib.sha256()

    def feed(x):
        if isinstance(x, dict):
            for k in sorted(x, key=str):
                h.update(str(k).encode())
                feed(x[k])
        elif isinstance(x, (list, tuple)):
            h.update(b"[%d" % len(x))
            for y in x:
                feed(y)
        elif isinstance(x, np.ndarray):
            h.update(str(x.shape).encode() + str(x.dtype).encode())
            h.update(np.ascontiguousarray(x).tobytes())
        elif isinstance(x, (float, np.floating)):
            h.update(np.float64(x).tobytes())
        else:
            h.update(repr(x).encode())
    feed(v)
    return h.hexdigest()


class ReaderT(tools.ToolCase):
    writer = False
    has_cli = False
    needs_3d = False

    def __init__(self, iterate):
        super().__init__()
        self.name = "reader-iterate" if iterate else "reader-select"
        self.iterate = iterate

    def draw(self, ctx, src):
        from .c15 import box_selector
        self.m = world.gen_world(src)
        m = self.m
        self.fsel, _, self.fdesc = common.field_selector(src, m, "f")
        self.lv = src.draw("lv", 0, m.nlev - 1)
        nb = len(m.boxes[self.lv])
        if self.iterate:
            self.bsel, self.bdesc = None, "iterate"
        else:
            form = None
            while True:
                self.bsel, _, self.bdesc = box_selector(src, nb, "b")
                if not isinstance(self.bsel, int):
                    break
                self.bsel = slice(None)
                self.bdesc = "slice all"
                break
        self.use_iter = (not self.iterate) and bool(src.draw("use_iter", 0, 1))
        # history: an earlier parallel read of a same-named plotfile in ANOTHER run directory, in the same
        # process, under FORK pools (real workers keep the directory they were forked in); the read under
        # test then uses the relative name from the second directory
        self.history = bool(src.flag("history", 4))
        self.twin = None
        if self.history:
            sub = RandomSource(src.draw("history.seed", 0, 9999))
            self.twin = m.copy_meta()
            world.gen_layout(sub, self.twin, tag="t")
            world.fill_random(self.twin, sub.draw("t.data", 0, 999999))
        self.serial = False
        self.opts.update(fsel=self.fdesc, lv=self.lv, bsel=self.bdesc, use_iter=self.use_iter, history=self.history)

    def materialise(self, root):
        p = os.path.join(root, "data", "plt00100")
        world.write_plotfile(self.m, p)
        if self.history:
            world.write_plotfile(self.twin, os.path.join(root, "earlier", "plt00100"))
        return [p]

    def call(self, ctx, root):
        from amr_kitchen import PlotfileCooker
        p = os.path.join(root, "data", "plt00100")
        self.out_abs = None
        cwd = self.cwd(root)
        old_fork = ctx.fork_mode
        if self.history:
            ctx.fork_mode = True
            p, cwd = "plt00100", os.path.join(root, "data")
            if not self.serial:
                def earlier():
                    pck = PlotfileCooker("plt00100")
                    return (pck[self.fsel][self.lv][:], list(pck[self.fsel][self.lv]))
                run_tool(ctx, earlier, cwd=os.path.join(root, "earlier"))
                ctx.pool_seq = 0

        def go():
            pck = PlotfileCooker(p)
            if self.iterate:
                return list(pck[self.fsel][self.lv])
            if self.serial:
                # the reader's serial mode: one box at a time by integer index, no pool involved
                nb = len(self.m.boxes[self.lv])
                which = np.arange(nb)[self.bsel if isinstance(self.bsel, slice) else np.array(self.bsel)]
                return [pck[self.fsel][self.lv][int(i)] for i in which]
            if self.use_iter:
                return list(pck[self.fsel][self.lv].iter(self.bsel))
            return pck[self.fsel][self.lv][self.bsel]
        try:
            return run_tool(ctx, go, cwd=cwd, label=f"{self.name} {self.fdesc} L{self.lv} {self.bdesc}")
        finally:
            ctx.fork_mode = old_fork


class TasteT(tools.ToolCase):
    name = "taste"
    writer = False
    needs_3d = False

    def draw(self, ctx, src):
        self.m = world.gen_world(src)
        self.damage = src.draw("damage", 0, 3)
        self.kw = {"binary_headers": bool(src.draw("o.h", 0, 1) == 0), "binary_shape": bool(src.draw("o.s", 0, 1) == 0),
                   "boxes_coordinates": bool(src.draw("o.c", 0, 1))}
        self.dlv = src.draw("damage.lv", 0, self.m.nlev - 1)
        self.opts.update(damage=self.damage, **self.kw)

    def materialise(self, root):
        p = os.path.join(root, "data", "plt00100")
        disk = world.write_plotfile(self.m, p)
        if self.damage == 3:
            # two defects in two different binary files of one level (the level with most files): which of them
            # a failing validation reports must not depend on the schedule either
            lv = max(range(self.m.nlev), key=lambda l: len({i[0] for i in disk[l]}))
            files = sorted({i[0] for i in disk[lv]})
            with open(files[0], "r+b") as f:
                f.truncate(max(0, os.path.getsize(files[0]) - 8))
            with open(files[-1], "ab") as f:
                f.write(b"\0" * 16)
        elif self.damage:
            info = disk[self.dlv][-1]
            if self.damage == 1:
                with open(info[0], "r+b") as f:
                    f.truncate(max(0, os.path.getsize(info[0]) - 8))
            else:
                with open(info[0], "ab") as f:
                    f.write(b"\0" * 16)
        return [p]

    def call(self, ctx, root):
        from amr_kitchen.taste import Taster
        p = os.path.join(root, "data", "plt00100")
        self.out_abs = None

        def go():
            t = Taster(p, nofail=True, verbose=0, **self.kw)
            verdict = bool(t)
            try:
                Taster(p, verbose=0, **self.kw)
                raised = None
            except Exception as e:
                # (the report names the box and file found bad: part of what the caller gets)
                import re
                raised = (type(e).__name__, re.sub(r"run\d+", "runK", ctx.clean(str(e))))
            return (verdict, raised)
        return run_tool(ctx, go, cwd=self.cwd(root), label=f"taste {self.kw} damage={self.damage}")


class PestleT(tools.ToolCase):
    name = "pestle"
    writer = False

    def draw(self, ctx, src):
        self.m = world.gen_world(src, force_3d=True, special_ok=False)
        self.var = src.choice("var", self.m.fields)
        self.opts.update(var=self.var)

    def materialise(self, root):
        p = os.path.join(root, "data", "plt00100")
        world.write_plotfile(self.m, p)
        return [p]

    def call(self, ctx, root):
        from amr_kitchen import PlotfileCooker
        from amr_kitchen.pestle import volume_integral
        p = os.path.join(root, "data", "plt00100")
        self.out_abs = None
        return run_tool(ctx, lambda: volume_integral(PlotfileCooker(p, ghost=True), self.var),
                        cwd=self.cwd(root), label=f"pestle {self.var}")


def make_chef_history():
    """A Cantera cook preceded, in the same process, by other parallel cooks (a Cantera one at another
    pressure, then a plain user recipe): run with FORK pools, where worker memory is real and pathos'
    cached workers survive between cooks.  The serial cook of the same request is the reference."""
    from . import c11

    class ChefHistoryT(c11.ChefBuiltinT):
        name = "chef-history"

        def draw(self, ctx, src):
            super().draw(ctx, src)
            self.opts.update(in_form="abs", out="abs", cli=False)
            self.serial = False
            self.n_earlier = src.draw("history.n", 1, 2)
            self.hseeds = [src.draw(f"history.seed{e}", 0, 999) for e in range(2)]
            self.opts.update(history=self.n_earlier)

        def call(self, ctx, root):
            from ..choice import RandomSource
            old_fork = ctx.fork_mode
            ctx.fork_mode = True
            try:
                if not self.serial:
                    for e in range(self.n_earlier):
                        r0 = os.path.join(root, f"earlier{e}")
                        if e == 0:
                            b0 = c11.ChefBuiltinT()
                            b0.m, b0.it, b0.iy, b0.nsp = c11.cantera_world(RandomSource(self.hseeds[e]))
                            b0.recipe, b0.species, b0.reactions, b0.pressure, b0.kept, b0.serial = "HRR", None, None, 0.5, [], False
                            b0.opts.update(in_form="abs", cwd="work", out="abs", cli=False)
                            first = b0
                        else:
                            first = tools.ChefUserT()
                            first.m = world.gen_world(RandomSource(self.hseeds[e]), force_3d=True, special_ok=False, max_levels=2)
                            first.kind, first.i, first.j, first.newnames, first.kept = "lin", 0, 0, ["new_a"], []
                            first.serial = False
                            first.opts.update(in_form="abs", cwd="work", out="abs", cli=False)
                        first.prepare_root(r0)
                        first.call(ctx, r0)
                        shutil.rmtree(r0, ignore_errors=True)
                        ctx.reset_pools(keep_pathos_cache=True)
                        ctx.pool_seq = 0
                return super().call(ctx, root)
            finally:
                ctx.fork_mode = old_fork
    return ChefHistoryT()


def make(name):
    if name == "chef-history":
        return make_chef_history()
    if name == "reader-select":
        return ReaderT(False)
    if name == "reader-iterate":
        return ReaderT(True)
    if name == "taste":
        return TasteT()
    if name == "pestle":
        return PestleT()
    if name == "chk2plt":
        from .c17 import Chk2pltT
        return Chk2pltT()
    return tools.make_tool(name)


class Res:
    pass


def execute(ctx, tool, k, pool_src, serial=None):
    root = os.path.join(ctx.scratch, f"run{k}")
    inputs = tool.prepare_root(root)
    ctx.pool_src = pool_src
    ctx.pool_seq = 0
    ctx.reset_pools()
    if core.FRESH_PROCESS_HOOK is not None:
        # every execution stands for a run of its own: package state is what a fresh interpreter has
        core.FRESH_PROCESS_HOOK()
    nsig0 = len(ctx.describe["schedules"])
    old_serial = getattr(tool, "serial", None)
    if serial is not None:
        tool.serial = serial
    try:
        o = tool.call(ctx, root)
    finally:
        ctx.pool_src = None
        if serial is not None:
            tool.serial = old_serial
    ctx.stats["tool_runs"] += 1
    r = Res()
    r.calls = []
    for p in ctx.pools:
        for c in p.calls:
            n_items = sum(len(u) for u in c.units if isinstance(u, list))
            r.calls.append({"pool": p.id, "call": c.id, "kind": c.kind, "units": len(c.units), "items": n_items,
                            "site": c.site, "W": p.W, "order": list(c.completion)})
    dig = {}
    for dp, dn, fn in os.walk(root):
        dn.sort()
        dn[:] = [d for d in dn if os.path.join(dp, d) not in inputs]
        for f in sorted(fn):
            pth = os.path.join(dp, f)
            rel = os.path.relpath(pth, root)
            if rel.startswith(os.path.join("work", "recipes")):
                continue
            with core._REAL_OPEN(pth, "rb") as fh:
                dig[rel] = hashlib.sha256(fh.read()).hexdigest()
    if o.ok:
        r.outcome = ("ok", val_digest(o.value))
    else:
        r.outcome = ("exc", type(o.exc).__name__)
    r.exc = o.exc
    r.files = dig
    shutil.rmtree(root, ignore_errors=True)
    ctx.reset_pools()
    return r


def units_for(call, W):
    n = call["items"]
    if call["kind"] == "map":
        chunk = -(-n // (4 * W))
        return -(-n // chunk) if chunk else 0
    return n


def variants_for(calls, ctx):
    """Scripts enumerating, for each call in turn, all feasible completion orders for W in
    {1,2,n,16} when the call has <= 4 units."""
    out = []
    for c in calls:
        seen = set()
        for W in sorted({1, 2, 16} | ({c["items"]} if c["items"] in (3, 4) else set())):
            if W not in W_INDEX:
                continue
            nu = units_for(c, W)
            if nu < 2:
                continue
            if nu > 4:
                ctx.probe("call_above_4_units")
                continue
            for k in range(math.factorial(nu)):
                order = tuple(_feasible_order(nu, W, perm_from_index(nu, k)))
                modes = (0, 1) if c["kind"] != "map" else (0,)
                for eager in modes:
                    key = (W if c["kind"] == "map" else min(W, nu), order, eager)
                    if key in seen:
                        continue
                    seen.add(key)
                    script = {f"pool{c['pool']}.W": W_INDEX[W], f"pool{c['pool']}.style": 4,
                              f"pool{c['pool']}.eager": eager, f"p{c['pool']}.c{c['call']}.perm": k}
                    out.append((f"call {c['site']}#{c['pool']}.{c['call']} W={W} order={list(order)} "
                                f"{'eager' if eager else 'lazy'}", script))
    return out


def run_case(ctx):
    src = ctx.src
    common.draw_env(ctx)
    name = src.choice("tool", TOOLS)
    tool = make(name)
    if name == "mandoline":
        tool.draw(ctx, src, formats=("return", "array", "plotfile"))
    else:
        tool.draw(ctx, src)
    if "in_form" in tool.opts:
        # invocation forms are C13's business: keep them plain here
        tool.opts["in_form"] = src.choice("in_form", ["abs", "rel"])
        if tool.opts.get("out") == "default":
            tool.opts["out"] = "abs"
    sig = {"property": ID, "tool": name}
    has_serial = (name in ("chef", "mandoline", "chef-history") and not tool.opts.get("cli")) or name == "reader-select"
    # reference: serial mode where it exists, else FIFO with one worker
    ref = execute(ctx, tool, 0, Scripted({}), serial=True if has_serial else None)
    pilot = ref
    if has_serial:
        pilot = execute(ctx, tool, 1, Scripted({}), serial=False)
        compare(ctx, sig, tool, ref, pilot, "parallel FIFO schedule vs serial mode")
    variants = variants_for(pilot.calls, ctx)
    cap = 40 if ctx.tier == "quick" else 400
    if name == "chef-history":
        cap = 4 if ctx.tier == "quick" else 24       # three Cantera cooks with real forks per variant
    if getattr(tool, "history", False):
        cap = 6 if ctx.tier == "quick" else 40       # real forks
    if len(variants) > cap:
        import random
        rnd = random.Random(src.draw("variants.subset", 0, 9999))
        variants = [variants[i] for i in sorted(rnd.sample(range(len(variants)), cap))]
        ctx.probe("enumeration_capped")
    elif variants:
        ctx.probe("enumeration_complete")
    k = 2
    for desc, script in variants:
        r = execute(ctx, tool, k, Scripted(script), serial=False if has_serial else None)
        k += 1
        ctx.stats["enumerated_variants"] += 1
        compare(ctx, sig, tool, ref, r, desc)
    nrand = src.draw("nrandom", 1, 3 if ctx.tier == "quick" else 6)
    if name == "chef-history":
        nrand = 1
    for j in range(nrand):
        seed = src.draw(f"rand{j}.seed", 1, 99999)
        ps = RandomSource(seed, forced=None)
        ps.forced_fn = lambda label, lo, hi: 3 if label.endswith(".style") and hi >= 3 else None
        r = execute(ctx, tool, k, ps, serial=False if has_serial else None)
        k += 1
        ctx.stats["random_variants"] += 1
        compare(ctx, sig, tool, ref, r, f"random schedule seed={seed}: {[(c['site'], c['W'], c['order']) for c in r.calls][:4]}")
    if getattr(ctx, "nontrivial_sched", False):
        ctx.nontrivial = True
    ctx.case_key = common.key_of([tool.describe(), getattr(tool, "m", None) and tool.m.summary(),
                                  sorted(map(str, ctx.sigs))])
    ctx.sample = {"tool": tool.describe(), "calls": [{k_: c[k_] for k_ in ("site", "kind", "units")} for c in pilot.calls][:6],
                  "enumerated_variants": len(variants), "random_variants": nrand, "reference": "serial" if has_serial else "FIFO W=1"}


def compare(ctx, sig, tool, ref, r, desc):
    if r.outcome[0] != ref.outcome[0] or (r.outcome[0] == "exc" and r.outcome[1] != ref.outcome[1]):
        raise Violation({**sig, "oracle": "outcome-class"},
                        f"{tool.name}: {desc}: outcome {r.outcome[0]}:{r.outcome[1] if r.outcome[0]=='exc' else ''} "
                        f"({r.exc!r}) but reference {ref.outcome[0]}:{ref.outcome[1] if ref.outcome[0]=='exc' else ''} "
                        f"({ref.exc!r}); {tool.describe()}")
    if r.files != ref.files:
        diff = sorted(k for k in set(r.files) | set(ref.files) if r.files.get(k) != ref.files.get(k))
        raise Violation({**sig, "oracle": "files-differ"},
                        f"{tool.name}: {desc}: produced files differ from the reference in {diff[:5]}; {tool.describe()}")
    if r.outcome[0] == "ok" and r.outcome[1] != ref.outcome[1]:
        raise Violation({**sig, "oracle": "return-values-differ"},
                        f"{tool.name}: {desc}: returned values differ bitwise from the reference; {tool.describe()}")


def evidence_extra(stats):
    return {"tool_executions": stats.get("tool_runs", 0), "enumerated_variants": stats.get("enumerated_variants", 0),
            "random_variants": stats.get("random_variants", 0)}
