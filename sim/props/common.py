"""Helpers shared by the property modules."""
import hashlib
import json
import os

import numpy as np

from .. import core, world
from ..core import Violation, HarnessError, run_tool
from ..reader import PlotOnDisk, FormatError, rows_equal


def key_of(obj):
    return hashlib.sha1(json.dumps(obj, sort_keys=True, default=str).encode()).hexdigest()[:16]


def materialise(ctx, m, name="plt00100"):
    path = os.path.join(ctx.scratch, name)
    disk = world.write_plotfile(m, path)
    return path, disk


def open_cooker(ctx, path, **kw):
    from amr_kitchen import PlotfileCooker
    out = run_tool(ctx, lambda: PlotfileCooker(path, **kw), label=f"PlotfileCooker({ctx.rel(path)},{kw})")
    return out


def draw_env(ctx):
    """Per-case environment draws (poison, listdir order)."""
    src = ctx.src
    ctx.poison = src.draw("env.poison", 0, 4)
    ctx.listdir_rot = src.draw("env.listdir_rot", 0, 3)
    ctx.listdir_rev = bool(src.draw("env.listdir_rev", 0, 1))


def field_selector(src, m, tag="fsel"):
    """A field selector in one of the forms C01 lists, with the model-side index
    expression.  Returns (selector, numpy index for the last axis, description)."""
    nf = len(m.fields)
    form = src.draw(f"{tag}.form", 0, 4)
    if form == 0:
        i = src.draw(f"{tag}.i", 0, nf - 1)
        return i, i, f"int {i}"
    if form == 1:
        i = src.draw(f"{tag}.i", 0, nf - 1)
        return m.fields[i], i, f"name {m.fields[i]!r}"
    if form in (2, 3):
        idx = list(src.subset(f"{tag}.set", nf, min_size=1))
        if src.flag(f"{tag}.repeat", 4):
            # weakly ascending: one entry listed twice (e.g. [1, 1, 3])
            j = src.draw(f"{tag}.repeat.at", 0, len(idx) - 1)
            idx.insert(j, idx[j])
        if form == 2:
            if src.flag(f"{tag}.ndarray", 3):
                return np.array(idx), list(idx), f"index array {idx}"
            return list(idx), list(idx), f"index list {idx}"
        return [m.fields[i] for i in idx], list(idx), f"name list {[m.fields[i] for i in idx]}"
    # forward slice: start/stop/step in {None, in-range, past-the-end}
    def part(name, lo):
        k = src.draw(f"{tag}.{name}.kind", 0, 2)
        if k == 0:
            return None
        if k == 1:
            return src.draw(f"{tag}.{name}.v", lo, max(lo, nf - 1))
        return nf + src.draw(f"{tag}.{name}.past", 0, 2)
    start = part("start", 0)
    stop = part("stop", 0)
    step = part("step", 1)
    sl = slice(start, stop, step)
    if len(range(*sl.indices(nf))) == 0:
        # empty selections are outside the forms the statement lists
        sl = slice(None, None, step)
    return sl, sl, f"slice {sl}"


def expected_box(m, lv, b, fidx):
    return m.data[lv][b][..., fidx]


def arr_digest(a):
    a = np.ascontiguousarray(np.asarray(a, dtype="float64"))
    return (a.shape, hashlib.sha1(a.view(np.uint8).tobytes()).hexdigest())


def check_output_plotfile(ctx, sig_base, out_path, expect, minmax="rows", taste=True,
                          taste_coords=True, rtol=None, dx_rtol=None, bounds_rtol=0.0):
    """Compare a tool-written plotfile with the expected PlotModel.

    expect: PlotModel (fields, mesh, data).  minmax: 'true' -> rows must equal the
    extrema of the written data; a dict lv->(mins,maxs) -> must equal those; None -> not
    checked.  Raises Violation with sig_base + oracle id."""
    def bad(oracle, msg, **extra):
        s = dict(sig_base)
        s["oracle"] = oracle
        s.update(extra)
        raise Violation(s, msg)
    try:
        p = PlotOnDisk(out_path)
    except (FormatError, OSError, ValueError, IndexError) as e:
        bad("output-parses", f"independent reader cannot parse the output: {type(e).__name__}: {e}")
    if p.fields != list(expect.fields):
        bad("fields", f"output fields {p.fields} != expected {list(expect.fields)}")
    if p.ndims != expect.ndims:
        bad("ndims", f"ndims {p.ndims} != {expect.ndims}")
    if p.nlev != expect.nlev:
        bad("levels", f"levels {p.nlev} != {expect.nlev}")
    if p.time != expect.time:
        bad("time", f"time {p.time!r} != {expect.time!r}")
    if list(p.geo_low) != [float(v) for v in expect.geo_low] or \
            list(p.geo_high) != [float(v) for v in expect.geo_high]:
        bad("geometry", f"geometry {p.geo_low}-{p.geo_high} != {expect.geo_low}-{expect.geo_high}")
    for lv in range(expect.nlev):
        if dx_rtol:
            okdx = len(p.dx[lv]) == len(expect.dx[lv]) and all(
                abs(a - b) <= dx_rtol * abs(b) for a, b in zip(p.dx[lv], expect.dx[lv]))
        else:
            okdx = [float(v) for v in p.dx[lv]] == [float(v) for v in expect.dx[lv]]
        if not okdx:
            bad("dx", f"L{lv} dx {p.dx[lv]} != {expect.dx[lv]}")
        if tuple(p.grid_sizes[lv]) != tuple(expect.grid_sizes[lv]):
            bad("grid_sizes", f"L{lv} grid {p.grid_sizes[lv]} != {expect.grid_sizes[lv]}")
        c = p.cells[lv]
        want_boxes = list(expect.boxes[lv])
        if sorted(c.indexes) != sorted(want_boxes):
            bad("boxes", f"L{lv} index ranges differ: {c.indexes} vs {want_boxes}")
        if len(p.boxes_phys[lv]) != len(want_boxes):
            bad("boxes", f"L{lv} {len(p.boxes_phys[lv])} physical boxes for {len(want_boxes)} boxes")
        emap = {box: b for b, box in enumerate(want_boxes)}
        for ob, box in enumerate(c.indexes):
            eb = emap[box]
            # physical bounds must be those of the same box in the input
            ephys = expect.box_phys(lv, eb)
            for d in range(expect.ndims):
                for a, e_ in zip(p.boxes_phys[lv][ob][d], ephys[d]):
                    # writers that COPY the mesh must reproduce the bounds exactly (repr round-trips);
                    # only writers that compute them (chk2plt) get a tolerance
                    if a != e_ and abs(a - e_) > bounds_rtol * max(1.0, abs(e_)):
                        bad("box-bounds", f"L{lv} box {box} dim {d}: bounds {p.boxes_phys[lv][ob][d]} vs {ephys[d]}")
            lo, hi, nc, arr = p.data[lv][ob]
            if (lo, hi) != box:
                bad("fab-range", f"L{lv} box {ob}: FAB header says {lo}-{hi}, Cell_H says {box}")
            if nc != len(expect.fields):
                bad("fab-ncomp", f"L{lv} box {ob}: FAB has {nc} components, header lists {len(expect.fields)} fields")
            want = expect.data[lv][eb]
            if rtol is None:
                if not world.same_bits(arr, want):
                    diff = np.argwhere(world.bits(arr) != world.bits(want)) if arr.shape == want.shape else None
                    comps = sorted({int(t[-1]) for t in diff}) if diff is not None else None
                    bad("box-values", f"L{lv} box {box}: values differ from expected in components {comps} "
                        f"(shape {arr.shape} vs {want.shape})", comps_class=_comp_class(comps, expect))
            else:
                for k in range(nc):
                    rt = rtol[k] if isinstance(rtol, (list, tuple)) else rtol
                    a_, w_ = arr[..., k], want[..., k]
                    if rt == 0:
                        okk = world.same_bits(a_, w_)
                    else:
                        okk = a_.shape == w_.shape and bool(np.all(
                            (np.abs(a_ - w_) <= rt * np.maximum(np.abs(w_), 1e-300) + 0.0) |
                            (np.isnan(a_) & np.isnan(w_)) | (a_ == w_)))
                    if not okk:
                        bad("box-values", f"L{lv} box {box}: component {k} ({expect.fields[k]}) differs "
                            f"from expected beyond rtol={rt}", comp=expect.fields[k] if False else None,
                            comps_class="tol")
            if minmax is not None:
                if c.mins is None:
                    bad("minmax-parse", f"L{lv}: min/max tables unreadable")
                if minmax == "true":
                    flat = arr.reshape(-1, nc)
                    wmin, wmax = np.min(flat, axis=0), np.max(flat, axis=0)
                else:
                    wmin, wmax = minmax[lv][0][eb], minmax[lv][1][eb]
                gmin, gmax = c.mins[ob], c.maxs[ob]
                # written with >= 16 significant digits by every writer: compare parsed doubles,
                # allowing the last-digit rounding of a 16-digit decimal
                if not _rows_close(gmin, wmin) or not _rows_close(gmax, wmax):
                    bad("minmax", f"L{lv} box {box}: min/max rows {gmin}/{gmax} vs expected {wmin}/{wmax}")
    probs = p.strict_problems()
    if probs:
        bad("strict-structure", "output is not a well-formed plotfile: " + "; ".join(probs[:4]))
    if taste:
        from amr_kitchen.taste import Taster
        for kw in ({}, {"boxes_coordinates": True}) if taste_coords else ({},):
            o = run_tool(ctx, lambda: bool(Taster(out_path, nofail=True, verbose=0, **kw)),
                         label=f"taste({ctx.rel(out_path)},{kw})")
            if not o.ok or o.value is not True:
                bad("taste-accepts", f"taste{kw} does not accept the output: ok={o.ok} value={o.value} "
                    f"exc={o.exc!r} out={o.out[-300:]}")
    return p


def _comp_class(comps, expect):
    if comps is None:
        return "shape"
    if len(comps) == len(expect.fields):
        return "all"
    return "some"


def _rows_close(a, b):
    a = np.asarray(a, dtype=float)
    b = np.asarray(b, dtype=float)
    if a.shape != b.shape:
        return False
    with np.errstate(all="ignore"):
        ok = (a == b) | (np.isnan(a) & np.isnan(b)) | (np.abs(a - b) <= 2e-16 * np.abs(b))
    return bool(np.all(ok))


def tree_digest(root):
    """relative path -> sha256 of bytes, for every file below root (sorted)."""
    out = {}
    if os.path.isfile(root):
        with core._REAL_OPEN(root, "rb") as f:
            return {".": hashlib.sha256(f.read()).hexdigest()}
    for dp, dn, fn in os.walk(root):
        dn.sort()
        for f in sorted(fn):
            p = os.path.join(dp, f)
            with core._REAL_OPEN(p, "rb") as fh:
                out[os.path.relpath(p, root)] = hashlib.sha256(fh.read()).hexdigest()
        if not dn and not fn:
            out[os.path.relpath(dp, root) + "/"] = "dir"
    return out


def snapshot(root):
    """content hash + size + mode + mtime_ns + listing of a tree."""
    out = {}
    for dp, dn, fn in os.walk(root):
        dn.sort()
        st = os.stat(dp)
        out[os.path.relpath(dp, root) + "/"] = (st.st_mode, st.st_mtime_ns, tuple(sorted(dn + fn)))
        for f in sorted(fn):
            p = os.path.join(dp, f)
            st = os.lstat(p)
            with core._REAL_OPEN(p, "rb") as fh:
                h = hashlib.sha256(fh.read()).hexdigest()
            out[os.path.relpath(p, root)] = (st.st_mode, st.st_size, st.st_mtime_ns, h)
    return out


def snap_diff(a, b):
    keys = sorted(set(a) | set(b))
    return [k for k in keys if a.get(k) != b.get(k)]


def prelude(ctx, tag="pre", rate=5):
    """In-process history: in a share of the cases another, unrelated tool operation on ANOTHER small
    plotfile (other dimensionality, field count, level count) runs first in the same process, so that
    state a tool leaves behind in the package (class attributes, module globals, caches) is in place
    when the operation under test starts.  Outcomes of the prelude itself are not judged here."""
    src = ctx.src
    if not src.flag(f"{tag}.on", rate):
        return None
    from ..choice import RandomSource
    sub = RandomSource(src.draw(f"{tag}.seed", 0, 9999))
    op = src.choice(f"{tag}.op", ["colander", "mandoline", "taste", "menu", "reader", "pestle", "chk2plt"])
    d = os.path.join(ctx.scratch, "prelude")
    os.makedirs(d, exist_ok=True)
    try:
        if op == "chk2plt":
            from .c17 import Chk2pltT
            t = Chk2pltT()
            t.draw(ctx, sub)
            t.opts.update(in_form="abs", cwd="work", out="abs", cli=False)
            t.prepare_root(os.path.join(d, "c2p"))
            t.call(ctx, os.path.join(d, "c2p"))
        else:
            m = world.gen_world(sub, tag="p", special_ok=False, force_3d=(op == "pestle"))
            p = os.path.join(d, "plt")
            world.write_plotfile(m, p)
            if op == "colander":
                from amr_kitchen.colander.colander import Colander
                run_tool(ctx, lambda: Colander(plotfile=p, output=os.path.join(d, "out"), variables=[m.fields[-1]]).strain(), cwd=d)
            elif op == "mandoline":
                from amr_kitchen.mandoline.mandoline import Mandoline
                run_tool(ctx, lambda: Mandoline(p, fields=[m.fields[0]], serial=True, verbose=0).slice(fformat="return"), cwd=d)
            elif op == "taste":
                from amr_kitchen.taste import Taster
                run_tool(ctx, lambda: bool(Taster(p, nofail=True, verbose=0, boxes_coordinates=True)), cwd=d)
            elif op == "menu":
                from amr_kitchen.menu.menu import Menu
                run_tool(ctx, lambda: Menu(plt_file=p, min_max=True), cwd=d)
            elif op == "reader":
                from amr_kitchen import PlotfileCooker
                run_tool(ctx, lambda: list(PlotfileCooker(p, maxmins=True)[[-1]][0]), cwd=d)
            else:
                from amr_kitchen import PlotfileCooker
                from amr_kitchen.pestle import volume_integral
                run_tool(ctx, lambda: volume_integral(PlotfileCooker(p, ghost=True), m.fields[0]), cwd=d)
    finally:
        ctx.reset_pools()
        ctx.pool_seq = 0
        import shutil
        shutil.rmtree(d, ignore_errors=True)
    ctx.probe("prelude." + op)
    return op


def history_materialise(ctx, m, warm, name="plt00100", rate=6, tag="hist"):
    """Materialise world m, in a share of the cases AFTER the same tool has already been used, in this
    process, on a twin that a path-keyed cache or a long-lived worker could confuse with it:

      same-path   a twin (same mesh and fields, other data and file layout) is written at the very path
                  the real plotfile will have, `warm` runs on it, it is deleted and the real one written
                  there (a plotfile regenerated in place)
      rel-cwd     twin and real plotfile carry the same relative name in two run directories; `warm`
                  runs in the first directory, the operation under test in the second (a script that
                  loops over case directories); half of these cases use FORK pools, whose workers keep
                  the working directory they were forked in

    `warm(path_argument)` must run the operation under test once through run_tool WITHOUT an explicit cwd
    (its outcome is not judged).
    Returns (path_argument, cwd, absolute_path, mode).  Pools are NOT reset in between: a pool the tool
    keeps alive is supposed to be met again."""
    src = ctx.src
    if name == "plt00100" and src.flag(f"{tag}.oddname", 8):
        # legal but unusual path spellings: glob / shell metacharacters, blanks, a nested run directory
        name = src.choice(f"{tag}.oddname.v", ["plt[00100]", "run[2]/plt00100", "plt 00100", "Re=1e3 phi=0.4/plt00100",
                                               "plt00100.old.0001", "plt*", "case(1)/plt?0100", "pl\u00e9/plt00100"])
        ctx.probe("odd_path_name")
    mode = "none"
    if src.flag(f"{tag}.on", rate):
        mode = src.choice(f"{tag}.mode", ["same-path", "rel-cwd"])
    if mode == "none":
        path = os.path.join(ctx.scratch, name)
        world.write_plotfile(m, path)
        return path, None, path, mode
    from ..choice import RandomSource
    sub = RandomSource(src.draw(f"{tag}.seed", 0, 9999))
    if src.flag(f"{tag}.other_mesh", 3):
        # a twin on ANOTHER mesh (same dimensionality and field names): something remembered per path
        # about the mesh itself (box maps, masks) then belongs to a different plotfile
        twin = world.gen_mesh(sub, tag="t", ndims=m.ndims, max_levels=max(m.nlev, 2), min_cells0=4)
        twin.fields = list(m.fields)
        twin.time = m.time
    else:
        twin = m.copy_meta()
    if len(m.fields) >= 2 and src.flag(f"{tag}.other_fields", 3):
        # an earlier member of a time series that lacks a field or stores the fields in another order:
        # what a tool remembers about field names/positions then belongs to a different plotfile
        k = sub.draw("t.fields", 0, 2)
        if k == 0:
            del twin.fields[sub.draw("t.drop", 0, len(twin.fields) - 1)]
        elif k == 1:
            twin.fields = twin.fields[1:] + twin.fields[:1]
        else:
            twin.fields = twin.fields[::-1][:max(1, len(twin.fields) - 1)]
        ctx.probe("history.other_fields")
    world.gen_layout(sub, twin, tag="t")
    world.fill_random(twin, sub.draw("t.data", 0, 999999))
    ctx.probe("history." + mode)
    if mode == "same-path":
        path = os.path.join(ctx.scratch, name)
        world.write_plotfile(twin, path)
        core.age_tree(ctx, path)
        try:
            warm(path)
        except Exception:
            pass
        import shutil
        shutil.rmtree(path)
        world.write_plotfile(m, path)
        core.age_tree(ctx, path)
        return path, None, path, mode
    if src.flag(f"{tag}.fork"):
        ctx.fork_mode = True
    da = os.path.join(ctx.scratch, "run_a")
    db = os.path.join(ctx.scratch, "run_b")
    os.makedirs(da)
    os.makedirs(db)
    world.write_plotfile(twin, os.path.join(da, name))
    world.write_plotfile(m, os.path.join(db, name))
    ctx.default_cwd = da
    try:
        warm(name)
    except Exception:
        pass
    ctx.default_cwd = db          # every later run_tool without an explicit cwd runs in the second directory
    return name, db, os.path.join(db, name), mode


def draw_read_fault(src, m, plt_abs, tag="rf", max_level=None):
    """A part-way read fault (core.FaultyRaw) on one binary file of plotfile `m` materialised at `plt_abs`:
    returns ({abs path: spec}, description).  Used by the fault-injecting configurations of the writers: a tool
    that RETURNS NORMALLY under the fault is judged like any other run."""
    top = m.nlev - 1 if max_level is None else max_level
    lv = src.draw(f"{tag}.lv", 0, top)
    names = sorted({f for f, _ in m.layout[lv]})
    fname = names[src.draw(f"{tag}.file", 0, len(names) - 1)]
    where = src.choice(f"{tag}.where", ["middle", "last-byte", "fab-header", "after-first-line"])
    if where == "fab-header":
        where = f"fab-header:{src.draw(f'{tag}.fab', 0, 3)}:0"
    return {os.path.join(plt_abs, f"Level_{lv}", fname): ("EIO-MID", where)}, f"EIO-MID@{where} in Level_{lv}/{fname}"
