"""C04 - taste rejects missing, truncated, shifted or inconsistent plotfile data."""
import os
import random
import shutil

from .. import core, world, damage
from ..choice import RandomSource, ChoiceSource
from ..core import Violation, run_tool
from . import common

ID = "C04"
LEVEL = "fault_enumeration"
BUDGET = {"quick": 1600, "thorough": 16000}
WALL_CAP = {"quick": 600, "thorough": 5400}
RULE = ("case = generated 2D/3D plotfile x drawn level limit; storage-fault operators (delete/truncate/extend/insert/"
        "remove bytes of a binary, rewrite FAB header index range or component count with and without resizing the "
        "payload, delete/duplicate/garble/retarget index and FabOnDisk lines, change announced counts, drop a box "
        "entry consistently, truncate/delete a level header, move box-bound lines by a cell) applied at every "
        "applicable site (each binary file; first/middle/last FAB of each file; first/middle/last entry of each level "
        "header) singly - all sites when below the per-case cap, a drawn subset above it - plus drawn pairs; an "
        "independent lenient re-parse (sim/damage.py effective_damage) decides whether the tree really is "
        "inconsistent in a listed class within the validated levels (a sixth of the cases take the damage from a "
        "CRASHED WRITER instead: the partial tree chef or combine leaves behind after one injected torn/refused "
        "write, judged the same way); if so Taster(dir) must raise and "
        "Taster(dir, nofail=True) must return falsy without raising, each under a drawn SimPool schedule. "
        "evaluations = cases (worlds); damaged trees are counted separately; non-trivial = an effectively damaged "
        "tree was tasted; distinct = hash(world, limit, operator sites)")
ASSUMPTIONS = ["'FAB header can be read from a position' is the line-based convention (last four tokens of the line), "
               "so FabOnDisk positions moved inside the header line are not damage (they go to C20)",
               "damage is applied to well-formed generated trees; the independent validator is trusted"]


class ConstSource(ChoiceSource):
    def _next(self, label, lo, hi):
        return lo


def taste_both(ctx, path, limit, sched_seed, keep_pools=False, **kw):
    from amr_kitchen.taste import Taster
    lim = {} if limit is None else {"limit_level": limit}
    res = {}
    for mode in ("fail", "nofail"):
        ctx.pool_src = RandomSource(sched_seed) if sched_seed else ConstSource()
        if not keep_pools:
            ctx.pool_seq = 0
            ctx.reset_pools()
        try:
            if mode == "fail":
                o = run_tool(ctx, lambda: bool(Taster(path, verbose=0, **lim, **kw)), drain=True)
            else:
                o = run_tool(ctx, lambda: bool(Taster(path, nofail=True, verbose=0, **lim, **kw)), drain=True)
        finally:
            ctx.pool_src = None
        res[mode] = o
        ctx.stats["taste_runs"] += 1
    if not keep_pools:
        ctx.reset_pools()
    return res


def enumerate_plans(ctx, m, src, coords, accept_biased, cap_single, n_pairs):
    sites = damage.sites(m, accept_biased=accept_biased, coords=coords)
    ctx.stats["sites_listed"] += len(sites)
    plans = [[s] for s in sites]
    if len(plans) > cap_single:
        rnd = random.Random(src.draw("sites.subset", 0, 9999))
        plans = [plans[i] for i in sorted(rnd.sample(range(len(plans)), cap_single))]
        ctx.probe("single_sites_capped")
    else:
        ctx.probe("single_sites_complete")
    if n_pairs and len(sites) >= 2:
        rnd = random.Random(src.draw("pairs.seed", 0, 9999))
        for _ in range(n_pairs):
            a, b = rnd.sample(range(len(sites)), 2)
            plans.append([sites[a], sites[b]])
    return plans


def crashed_writer_case(ctx, src):
    """Damage source = the partial output tree a crashed writer leaves behind (chef and combine write
    the global header first): one write fault (torn or refused write / close) at a drawn site of the
    run; the independent judge decides whether the tree is damaged in a listed class."""
    from . import tools
    from .c13 import execute as c13_execute
    from ..reader import parse_header, FormatError
    name = src.choice("crash.tool", ["chef", "combine"])
    tool = tools.make_tool(name)
    if name == "combine":
        tool.draw(ctx, src, mono_only=False)
    else:
        tool.draw(ctx, src)
    tool.opts.update(in_form="abs", cwd="work", out="abs", cli=False)
    if name == "chef":
        tool.serial = bool(src.draw("crash.serial", 0, 1))
    sched_seed = src.draw("sched", 0, 9999)
    pilot = c13_execute(ctx, tool, 0, sched_seed)
    shutil.rmtree(pilot.root, ignore_errors=True)
    if not pilot.outcome.ok:
        ctx.case_key = common.key_of(["crash-pilot-fails", tool.describe()])
        return
    wsites = [i for i, (k, rp, a) in enumerate(pilot.sites) if k in ("write", "close") and "Cell_D" in rp or
              (k == "write" and rp.endswith("Cell_H"))]
    if not wsites:
        ctx.case_key = common.key_of(["crash-nosite", tool.describe()])
        return
    n_try = 6 if ctx.tier == "quick" else 30
    import random
    rnd = random.Random(src.draw("crash.sites", 0, 9999))
    chosen = sorted(rnd.sample(wsites, min(n_try, len(wsites))))
    keys = []
    for n, idx in enumerate(chosen):
        kind = pilot.sites[idx][0]
        fk = "EIO" if kind == "close" else rnd.choice(["TORN", "ENOSPC"])
        r = c13_execute(ctx, tool, n + 1, sched_seed, plan={idx: fk})
        out = r.out_abs
        ctx.stats["crashed_writer_runs"] += 1
        try:
            if not r.fired or out is None or not os.path.isdir(out):
                continue
            try:
                h = parse_header(out)
            except (FormatError, OSError, ValueError, IndexError):
                ctx.stats["crashed_tree_without_header"] += 1
                continue
            nboxes = [len(b) for b in h.boxes_phys]
            judged = damage.effective_damage(out, nboxes, len(h.fields), h.ndims, h.finest)
            ctx.ev("crashed", name, idx, fk, "judged", sorted({c for c, _ in judged}))
            if not judged:
                ctx.stats["crashed_tree_consistent"] += 1
                continue
            ctx.stats["crashed_tree_damaged"] += 1
            ctx.nontrivial = True
            res = taste_both(ctx, out, None, sched_seed + n if sched_seed else 0)
            sig = {"property": ID, "op": f"crashed-{name}", "classes": "+".join(sorted({c for c, _ in judged}))}
            f, nf = res["fail"], res["nofail"]
            what = (f"partial output of {name} after {fk} at site #{idx} ({pilot.sites[idx][0]} {pilot.sites[idx][1]}); "
                    f"judged {judged[:2]}; {tool.describe()}")
            if f.ok:
                raise Violation({**sig, "oracle": "failing-mode-does-not-raise"}, f"Taster(dir) returned normally for the {what}")
            if not nf.ok:
                raise Violation({**sig, "oracle": "nofail-mode-raises", **nf.exc_sig()},
                                f"Taster(dir, nofail=True) raised {nf.exc!r} for the {what}")
            if nf.value is not False:
                raise Violation({**sig, "oracle": "nofail-mode-truthy"}, f"Taster(dir, nofail=True) is {nf.value!r} for the {what}")
            keys.append((idx, fk))
        finally:
            shutil.rmtree(r.root, ignore_errors=True)
    ctx.case_key = common.key_of(["crashed", tool.describe(), keys])
    ctx.sample = {"arm": "crashed-writer", "tool": tool.describe(), "faulted_runs": len(chosen)}


def run_case(ctx):
    src = ctx.src
    common.draw_env(ctx)
    common.prelude(ctx)
    if src.flag("crashed_writer", 6):
        return crashed_writer_case(ctx, src)
    m = world.gen_world(src, max_boxes=12, scale=("manyboxes", "farcorner", "manyfields", "longdomain", "manyfiles"), scale_rate=40)
    master = os.path.join(ctx.scratch, "master")
    world.write_plotfile(m, master)
    limit = m.nlev - 1
    lim_arg = None
    wide = getattr(m, "scale_cls", None) == "manyfiles"       # (hundreds of tasks per validation: fewer trees)
    far = getattr(m, "scale_cls", None) == "longdomain"      # (only its finest levels have the large indexes)
    if m.nlev > 1 and src.flag("limit") and not far:
        limit = src.draw("limit.v", 0, m.nlev - 1)
        lim_arg = limit
    sched_seed = src.draw("sched", 0, 9999)
    quick = ctx.tier == "quick"
    plans = enumerate_plans(ctx, m, src, coords=True, accept_biased=False,
                            cap_single=2000 if far else ((20 if wide else 60) if quick else 400), n_pairs=(2 if wide else 8) if quick else 60)
    nboxes = [len(b) for b in m.boxes]
    keys = []
    # history: in a sixth of the cases an INTACT copy was validated first, under the same relative name in
    # another run directory, with FORK pools (workers that outlive a validation keep the directory they were
    # forked in and would read the intact files); pools are not reset between the validations of such a case
    hist = bool(src.flag("hist.rel_cwd_fork", 6))
    tree_dir, tree_arg = ctx.scratch, None
    if hist:
        ctx.fork_mode = True
        run_a = os.path.join(ctx.scratch, "run_a")
        tree_dir = os.path.join(ctx.scratch, "run_b")
        os.makedirs(run_a)
        os.makedirs(tree_dir)
        shutil.copytree(master, os.path.join(run_a, "tree"))
        from amr_kitchen.taste import Taster as _T
        ctx.pool_src = ConstSource()
        run_tool(ctx, lambda: bool(_T("tree", nofail=True, verbose=0, boxes_coordinates=True)), cwd=run_a)
        ctx.pool_src = None
        ctx.default_cwd = tree_dir
        tree_arg = "tree"
        import random as _r
        plans = [plans[i] for i in sorted(_r.Random(src.draw("hist.subset", 0, 9999)).sample(range(len(plans)), min(6, len(plans))))]
        ctx.probe("history.rel-cwd-fork")
    for n, plan in enumerate(plans):
        # every damaged tree takes the SAME path in turn (anything remembered per path is stale then)
        tree = os.path.join(tree_dir, "tree")
        shutil.rmtree(tree, ignore_errors=True)
        shutil.copytree(master, tree)
        descs = []
        for op, args in plan:
            d = damage.apply(tree, m, op, args)
            if d:
                descs.append(d)
        if not descs:
            shutil.rmtree(tree, ignore_errors=True)
            continue
        core.age_tree(ctx, tree)
        ctx.stats["damaged_trees"] += 1
        is_coord = any(op.startswith("gh.") for op, _ in plan)
        judged = damage.effective_damage(tree, nboxes, len(m.fields), m.ndims, limit)
        coord_damage = is_coord and all(a[0] <= limit for op, a in plan if op.startswith("gh."))
        opname = "+".join(op for op, _ in plan)
        ctx.ev("damage", n, opname, [a for _, a in plan], "judged", sorted({c for c, _ in judged}))
        if judged:
            ctx.stats["effective_damage"] += 1
            for c in {c for c, _ in judged}:
                ctx.stats[f"class.{c}"] += 1
            ctx.nontrivial = True
            res = taste_both(ctx, tree_arg or tree, lim_arg, sched_seed + n if sched_seed else 0, keep_pools=hist)
            sig = {"property": ID, "op": opname, "classes": "+".join(sorted({c for c, _ in judged}))}
            check_rejects(ctx, sig, res, descs, judged, m, limit)
            ctx.stats["rejected_as_demanded"] += 1
        elif coord_damage:
            ctx.stats["coord_damage"] += 1
            ctx.nontrivial = True
            res = taste_both(ctx, tree_arg or tree, lim_arg, sched_seed + n if sched_seed else 0, keep_pools=hist,
                             boxes_coordinates=True)
            sig = {"property": ID, "op": opname, "classes": "box-bounds-contradict-indexes"}
            check_rejects(ctx, sig, res, descs, [("box-bounds", "moved by one cell")], m, limit)
        else:
            ctx.stats["not_effective_or_out_of_scope"] += 1
            if len(plan) == 1:
                ctx.stats[f"noteff.{opname}{'' if plan[0][1][0] <= limit else '(above limit)'}"] += 1
            # nothing is demanded; still exercise taste (it must not hang or kill the harness)
            res = taste_both(ctx, tree_arg or tree, lim_arg, 0, keep_pools=hist)
            if res["nofail"].ok and res["nofail"].value is True:
                ctx.stats["undemanded_accepted"] += 1
        keys.append((opname, [a for _, a in plan]))
        shutil.rmtree(tree, ignore_errors=True)
    ctx.case_key = common.key_of([m.summary(), limit, keys])
    ctx.sample = {"world": m.summary(), "limit": limit, "plans": len(plans),
                  "example_plan": [list(map(str, p)) for p in plans[len(plans) // 2]] if plans else None}


def check_rejects(ctx, sig, res, descs, judged, m, limit):
    what = f"damage {descs} (judged: {judged[:2]}) on {m.summary()['boxes']} boxes/level, validated levels 0..{limit}"
    f, nf = res["fail"], res["nofail"]
    if f.ok:
        raise Violation({**sig, "oracle": "failing-mode-does-not-raise"},
                        f"Taster(dir) returned normally (bool={f.value}) for {what}")
    if not nf.ok:
        raise Violation({**sig, "oracle": "nofail-mode-raises", **nf.exc_sig()},
                        f"Taster(dir, nofail=True) raised {nf.exc!r} for {what}")
    if nf.value is not False:
        raise Violation({**sig, "oracle": "nofail-mode-truthy"},
                        f"Taster(dir, nofail=True) evaluates {nf.value!r} for {what}")


def evidence_extra(stats):
    keys = ("crashed_writer_runs", "crashed_tree_damaged", "crashed_tree_consistent", "crashed_tree_without_header",
            "damaged_trees", "effective_damage", "rejected_as_demanded", "coord_damage",
            "not_effective_or_out_of_scope", "undemanded_accepted", "taste_runs", "sites_listed")
    out = {k: stats.get(k, 0) for k in keys}
    out["damage_classes_effective"] = {k[len("class."):]: v for k, v in stats.items() if k.startswith("class.")}
    out["single_ops_judged_not_effective"] = {k[len("noteff."):]: v for k, v in stats.items() if k.startswith("noteff.")}
    return out
