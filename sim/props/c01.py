"""C01 - box data read through the indexing interface is exactly what is on disk."""
import numpy as np

from .. import world
from ..core import Violation, run_tool
from . import common
from .c15 import box_selector, _fclass

ID = "C01"
LEVEL = "exploration"
BUDGET = {"quick": 24000, "thorough": 480000}
WALL_CAP = {"quick": 600, "thorough": 5400}
RULE = ("case = generated 2D/3D plotfile x 4-10 selections (field selector in {name,int,ascending int list,"
        "name list,forward slice with None/in-range/past-the-end parts} x level x box selector in {int,negative "
        "int,slice,int list with repeats,bool mask}) plus dishonourable selections (field index >= n, unknown name, "
        "level > limit, box index >= n, wrong-length mask, negative field index), each multi-box selection read "
        "through pool.map under a drawn SimPool schedule; non-trivial = a multi-box selection ran as >=2 pool "
        "tasks, or the level's layout is multi-file/non-monotone; distinct = hash(world, selections, schedules)")
ASSUMPTIONS = ["independent reader/model is the oracle", "payloads unique per cell (attributable values)",
               "index spaces start at 0, as the pinned reader assumes throughout (grid sizes from the upper domain corner)"]


def run_case(ctx):
    src = ctx.src
    common.draw_env(ctx)
    common.prelude(ctx)
    m = world.gen_world(src, scale=("hugebox", "manyboxes", "farcorner", "manyfields", "longdomain"), lowprec_ok=True)
    from amr_kitchen import PlotfileCooker as _PC
    path, hcwd, _abs, hmode = common.history_materialise(
        ctx, m, lambda p: run_tool(ctx, lambda: (_PC(p, maxmins=True), _PC(p)[0][0][:], list(_PC(p)[0][0]))))
    limit = None
    if m.nlev > 1 and src.flag("limit"):
        limit = src.draw("limit.v", 0, m.nlev - 1)
    kw = {} if limit is None else {"limit_level": limit}
    o = common.open_cooker(ctx, path, **kw)
    if not o.ok:
        raise Violation({"property": ID, "oracle": "open", **o.exc_sig()},
                        f"PlotfileCooker cannot open a well-formed plotfile: {o.exc!r}")
    pck = o.value
    top = m.nlev - 1 if limit is None else limit
    nf = len(m.fields)
    nsel = src.draw("nsel", 2, 6)
    keyparts = [m.summary(), limit]
    for s in range(nsel):
        kind = src.weighted(f"s{s}.kind", [("good", 5), ("bad", 2)])
        if kind == "good":
            fsel, fidx, fdesc = common.field_selector(src, m, tag=f"s{s}.f")
            lv = src.draw(f"s{s}.lv", 0, top)
            lv_arg = lv
            if lv == top and src.flag(f"s{s}.neglv", 4):
                lv_arg = -1
            nb = len(m.boxes[lv])
            bsel, bidx, bdesc = box_selector(src, nb, f"s{s}.b")
            if isinstance(bsel, int) and src.flag(f"s{s}.negbox", 4):
                bsel = bsel - nb
                bdesc = f"int {bsel}"
            sig = {"property": ID, "fsel": _fclass(fsel), "bsel": bdesc.split()[0]}
            label = f"pck[{fdesc}][{lv_arg}][{bdesc}]"
            o = run_tool(ctx, lambda: pck[fsel][lv_arg][bsel], label=label)
            if lv_arg == -1 and not o.ok:
                # level -1 is a docstring idiom, not in the statement: refusing it is fine
                continue
            if not o.ok:
                raise Violation({**sig, "oracle": "selection-raises", **o.exc_sig()},
                                f"{label} raised {o.exc!r} on a well-formed plotfile "
                                f"({nf} fields, {nb} boxes at level {lv})")
            got = o.value
            want = [common.expected_box(m, lv, b, fidx) for b in bidx]
            if isinstance(bsel, int):
                got = [got]
            if got is None or len(got) != len(want):
                raise Violation({**sig, "oracle": "selection-count"},
                                f"{label}: got {None if got is None else len(got)} arrays, want {len(want)}")
            for k, (g, w) in enumerate(zip(got, want)):
                if not isinstance(g, np.ndarray) or g.shape != w.shape:
                    raise Violation({**sig, "oracle": "selection-shape"},
                                    f"{label}: item {k} has shape {getattr(g, 'shape', None)}, want {w.shape} "
                                    f"(nx,ny[,nz][,nfields])")
                if not world.same_bits(g, w):
                    raise Violation({**sig, "oracle": "selection-values", "layout": m.layout_class(lv)},
                                    f"{label}: item {k} (box {bidx[k]}) differs bitwise from the stored data")
            if len(bidx) >= 2 or len({f for f, _ in m.layout[lv]}) >= 2 or m.layout_class(lv) == "nonmono":
                ctx.nontrivial = True
            keyparts.append((fdesc, lv_arg, bdesc))
        else:
            bk = src.draw(f"s{s}.badkind", 0, 5)
            lv = src.draw(f"s{s}.lv", 0, top)
            nb = len(m.boxes[lv])
            f_ok = src.draw(f"s{s}.fok", 0, nf - 1)
            honour = None
            if bk == 0:
                fa = nf + src.draw(f"s{s}.over", 0, 2)
                fn = lambda: pck[fa][lv][0]
                desc = f"pck[{fa}][{lv}][0] with {nf} fields"
            elif bk == 1:
                fn = lambda: pck["no_such_field"][lv][0]
                desc = "pck['no_such_field']"
            elif bk == 2:
                over = m.nlev - 1 if (limit is not None and limit < m.nlev - 1 and src.flag(f"s{s}.real")) else top + 1 + src.draw(f"s{s}.lvover", 0, 1)
                if over <= top:
                    over = top + 1
                fn = lambda: pck[f_ok][over][0]
                desc = f"pck[{f_ok}][{over}] with limit {top}"
            elif bk == 3:
                bi = nb + src.draw(f"s{s}.bover", 0, 2)
                fn = lambda: pck[f_ok][lv][bi]
                desc = f"pck[{f_ok}][{lv}][{bi}] with {nb} boxes"
            elif bk == 4:
                ln = nb + 1 + src.draw(f"s{s}.mlen", 0, 1)
                mask = np.ones(ln, dtype=bool)
                fn = lambda: pck[f_ok][lv][mask]
                desc = f"pck[{f_ok}][{lv}][mask of length {ln}] with {nb} boxes"
            else:
                neg = -1 - src.draw(f"s{s}.neg", 0, nf - 1)
                b = src.draw(f"s{s}.nb", 0, nb - 1)
                fn = lambda: pck[neg][lv][b]
                desc = f"pck[{neg}][{lv}][{b}] with {nf} fields"
                honour = common.expected_box(m, lv, b, nf + neg)
            o = run_tool(ctx, fn, label=desc)
            sig = {"property": ID, "oracle": "dishonourable-returns", "bad": ["field>=n", "unknown-name", "level>limit",
                                                                           "box>=n", "mask-length", "negative-field"][bk]}
            if o.ok:
                if honour is not None and isinstance(o.value, np.ndarray) and world.same_bits(o.value, honour):
                    pass        # honoured with Python's from-the-end meaning
                else:
                    raise Violation(sig, f"{desc} returned {type(o.value).__name__}"
                                    f"{getattr(o.value, 'shape', '')} instead of raising")
            keyparts.append(desc)
    # one selector OBJECT (list or numpy array, possibly with from-the-end indices) used on two
    # plotfiles with different field counts in turn: every use must return the fields it designates
    # in THAT plotfile (or be refused) - a reader that rewrites the caller's selector breaks this
    if src.flag("reuse", 3):
        m2 = world.gen_world(src, tag="w2", max_levels=1, max_boxes=4)
        path2 = common.materialise(ctx, m2, name="plt00200")[0]
        o2 = common.open_cooker(ctx, path2)
        if o2.ok:
            nmin = min(nf, len(m2.fields))
            k = src.draw("reuse.k", 1, min(3, nmin))
            neg = sorted(-1 - v for v in src.subset("reuse.set", nmin, min_size=k)[:k])
            if src.flag("reuse.mixed") and neg[0] < -1:
                neg = [0] + [v for v in neg if nmin + v > 0] if all(nmin + v > 0 for v in neg) else neg
            as_array = bool(src.draw("reuse.array", 0, 1))
            sel = np.array(neg) if as_array else list(neg)
            desc0 = f"{'np.array' if as_array else 'list'}({neg})"
            for which, (pk, mm) in enumerate(((pck, m), (o2.value, m2), (pck, m))):
                nfx = len(mm.fields)
                idx = [v + nfx if v < 0 else v for v in neg]
                if idx != sorted(idx) or len(set(idx)) != len(idx):
                    continue
                o = run_tool(ctx, lambda: pk[sel][0][0], label=f"shared selector {desc0} on plotfile {'ABA'[which]} ({nfx} fields)")
                if not o.ok:
                    continue
                want = mm.data[0][0][..., idx]
                if not isinstance(o.value, np.ndarray) or not world.same_bits(o.value, want):
                    raise Violation({"property": ID, "oracle": "shared-selector", "use": which, "array": as_array},
                                    f"selector {desc0} used for the {['first', 'second', 'third'][which]} time, on a "
                                    f"plotfile with {nfx} fields, returned shape {getattr(o.value, 'shape', None)} / other "
                                    f"data than fields {idx}; the selector object now reads {sel!r}")
            keyparts.append(("reuse", desc0, len(m2.fields)))
    keyparts.append(sorted(map(str, ctx.sigs)))
    ctx.case_key = common.key_of(keyparts)
    ctx.sample = {"world": m.summary(), "limit": limit, "selections": ctx.describe["operations"][1:],
                  "schedules": ctx.describe["schedules"][:3]}
