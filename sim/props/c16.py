"""C16 - mandoline's plotfile-format slice is a valid 2D plotfile of the plane data."""
import os
from collections import Counter

import numpy as np

from .. import world
from ..core import Violation, run_tool
from ..reader import PlotOnDisk, FormatError
from . import common, mand

ID = "C16"
LEVEL = "exploration"
BUDGET = {"quick": 16000, "thorough": 320000}
WALL_CAP = {"quick": 600, "thorough": 5400}
RULE = ("case = designed 3D world (as C07) x normal x position from the designed set x field list x level limit "
        "(restricted to levels that meet the plane) x file-splitting threshold knob in {default 1 MB, 64, 200, 1000, "
        "4000 bytes} (guarded hook, so multi-file and more-files-than-boxes shapes occur) x pre-existing output "
        "directory x {API, CLI} x {serial, pool}; executed under two np.empty poisons. Oracle: output parses as a 2D "
        "plotfile, strict structure check and taste (incl. box coordinates) accept it; time, in-plane geometry, cell "
        "sizes and grid sizes equal the input's; per level the footprints equal those of the boxes the plane meets "
        "(closed test; multiset equality unless the plane is on a box face of that level, then set equality); in every "
        "box, at pixels where that level has both bracketing samples, every written field equals the linear "
        "interpolation of that level's own samples (1e-12 relative; aff = a+b*pos to 1e-9); min/max rows equal the "
        "extrema of the written data; the two poison runs agree bitwise at those pixels and in structure. "
        "non-trivial = >= 2 levels or >= 2 boxes written or a lowered split threshold; distinct = hash(world, normal, "
        "position, fields, limit, knob, schedules)")
ASSUMPTIONS = ["pixels where a level has no sample on one side of the plane (domain faces, coarse-fine interfaces) are "
               "not value-checked: the statement defines no value there", "planes meet at least one box on every "
               "written level (the limit is chosen accordingly)"]
AX = "xyz"


def run_slice(ctx, path, req, limit, serial, cn, pos, out, cli, split, pre=()):
    if split is None:
        os.environ.pop("AMR_KITCHEN_VERIF_SPLIT_BYTES", None)
    else:
        os.environ["AMR_KITCHEN_VERIF_SPLIT_BYTES"] = str(split)
    try:
        if cli:
            from amr_kitchen.mandoline import cli as mcli
            argv = ["mandoline", path, "-f", "plotfile", "-v", *req, "-V", "0", "-o", out, "-n", str(cn)]
            if limit is not None:
                argv += ["-L", str(limit)]
            if pos is not None:
                argv += ["--position=" + repr(pos)]      # (argparse takes '-5e-05' for an option)
            if serial:
                argv += ["-s"]
            return run_tool(ctx, mcli.main, argv=argv, label=f"mandoline {argv[1:]} split={split}")
        from amr_kitchen.mandoline.mandoline import Mandoline

        def go():
            md = Mandoline(path, fields=list(req), limit_level=limit, serial=serial, verbose=0)
            for (n0, p0) in pre:
                md.slice(normal=n0, pos=p0, fformat="return")
            return md.slice(normal=cn, pos=pos, outfile=out, fformat="plotfile")
        return run_tool(ctx, go,
                        label=f"Mandoline({req},L={limit},serial={serial}).slice({cn},{pos},plotfile) split={split}")
    finally:
        os.environ.pop("AMR_KITCHEN_VERIF_SPLIT_BYTES", None)


def run_case(ctx):
    src = ctx.src
    common.draw_env(ctx)
    common.prelude(ctx)
    m = mand.designed_world(src)
    cn = src.draw("normal", 0, 2)

    def warm(p):
        run_slice(ctx, p, ["rnd"], None, True, cn, None, os.path.join(ctx.scratch, "warm_slice"), False, None)
    path, hcwd, _abs, hmode = common.history_materialise(ctx, m, warm)
    ax = AX[cn]
    pos, pkind = mand.draw_position(src, m, cn)
    lo, hi = m.geo_low[cn], m.geo_high[cn]
    rpos = pos if pos is not None else lo + (hi - lo) / 2
    # levels that meet the plane form a prefix (proper nesting)
    met = 0
    for lv in range(m.nlev):
        if mand.level_cover(m, lv, cn, rpos, 0.0).any():
            met = lv
        else:
            break
    L = src.draw("limit.v", 0, met)
    limit = L if (L < m.nlev - 1 or src.flag("limit.explicit")) else None
    k = src.draw("fields.mode", 0, 2)
    if k == 0:
        req = [f"aff_{ax}", f"cst_{ax}", "rnd"]
    elif k == 1:
        req = ["all"]
    else:
        idx = src.subset("fields.set", len(m.fields), min_size=1)
        order = src.perm("fields.order", len(idx)) if 1 < len(idx) <= 7 else list(range(len(idx)))
        req = [m.fields[idx[i]] for i in order]
        if src.flag("fields.grid_level", 4):
            req.append("grid_level")
    names = list(m.fields) if req == ["all"] else [f for f in req if f != "grid_level"]
    split = src.choice("split", [None, 64, 200, 1000, 4000])
    pre = bool(src.draw("preexisting", 0, 1))
    cli = bool(src.draw("cli", 0, 1))
    serial = bool(src.draw("serial", 0, 1))
    sig = {"property": ID, "pos": pkind, "split": split is not None}
    pre = ()
    if not cli and pos is not None and src.flag("object_reuse", 4):
        n0 = (cn + 1 + src.draw("object_reuse.n", 0, 1)) % 3
        pre = ((n0, m.geo_low[n0] + (m.geo_high[n0] - m.geo_low[n0]) * 0.37),)
    what = (f"normal={ax} pos={pos!r} ({pkind}) fields={req} limit={limit} split={split} serial={serial} "
            f"world={m.summary()}")
    parsed = []
    p0 = ctx.poison
    for run, poison in enumerate((p0, (p0 + 2) % 5)):
        ctx.poison = poison
        out = os.path.join(ctx.scratch, f"slice{run}")
        if pre:
            os.makedirs(os.path.join(out, "Level_0"))
            with open(os.path.join(out, "Level_0", "Cell_D_99999"), "w") as f:
                f.write("stale")
        o = run_slice(ctx, path, req, limit, serial, cn, pos, out, cli, split, pre=pre)
        if not o.ok:
            raise Violation({**sig, "oracle": "slice-raises", **o.exc_sig()}, f"plotfile slice raised {o.exc!r}; {what}")
        if pre and os.path.exists(os.path.join(out, "Level_0", "Cell_D_99999")):
            raise Violation({**sig, "oracle": "stale-output-kept"}, f"pre-existing output content survived; {what}")
        parsed.append(check_slice(ctx, sig, m, out, cn, rpos, L, names, what, taste=(run == 0)))
    ctx.poison = p0
    a, b = parsed
    for lv in range(L + 1):
        if a["structure"][lv] != b["structure"][lv]:
            raise Violation({**sig, "oracle": "poison-differential", "part": "structure"},
                            f"level {lv} header structure depends on uninitialised memory; {what}")
        for (fa, da, ma), (fb, db, mb) in zip(a["boxes"][lv], b["boxes"][lv]):
            if fa != fb or not world.same_values(da[ma], db[mb]):
                raise Violation({**sig, "oracle": "poison-differential", "part": "values"},
                                f"level {lv} box {fa}: values at pixels with both bracketing samples depend on "
                                f"uninitialised memory; {what}")
    nboxes = sum(len(x) for x in a["boxes"])
    if L >= 1 or nboxes >= 2 or split is not None:
        ctx.nontrivial = True
    ctx.stats[f"files_per_level.{min(max(a['nfiles']), 4)}"] += 1
    ctx.stats["defined_pixels_checked"] += a["checked"]
    ctx.case_key = common.key_of([m.summary(), cn, pos, req, limit, split, pre, cli, serial, sorted(map(str, ctx.sigs))])
    ctx.sample = {"world": m.summary(), "normal": ax, "pos": pos, "pos_kind": pkind, "fields": req, "limit": limit,
                  "split_bytes": split, "boxes_written": [len(x) for x in a["boxes"]], "files": a["nfiles"]}


def check_slice(ctx, sig, m, out, cn, pos, L, names, what, taste=True):
    def bad(oracle, msg, **kw):
        raise Violation({**sig, "oracle": oracle, **kw}, msg + "; " + what)
    cx, cy = mand.plane_axes(cn)
    try:
        p = PlotOnDisk(out)
    except (FormatError, OSError, ValueError, IndexError) as e:
        bad("output-parses", f"independent reader cannot parse the slice plotfile: {type(e).__name__}: {e}")
    if p.ndims != 2:
        bad("ndims", f"ndims {p.ndims}")
    if p.fields != names:
        bad("fields", f"fields {p.fields} != {names}")
    if p.nlev != L + 1:
        bad("levels", f"{p.nlev} levels written, want {L + 1}")
    if p.time != m.time:
        bad("time", f"time {p.time!r} != {m.time!r}")
    if list(p.geo_low) != [m.geo_low[cx], m.geo_low[cy]] or list(p.geo_high) != [m.geo_high[cx], m.geo_high[cy]]:
        bad("geometry", f"geometry {p.geo_low}-{p.geo_high}")
    res = {"structure": [], "boxes": [], "nfiles": [], "checked": 0}
    for lv in range(L + 1):
        if [float(v) for v in p.dx[lv]] != [float(m.dx[lv][cx]), float(m.dx[lv][cy])]:
            bad("dx", f"L{lv} dx {p.dx[lv]}")
        if tuple(p.grid_sizes[lv]) != (int(m.grid_sizes[lv][cx]), int(m.grid_sizes[lv][cy])):
            bad("grid_sizes", f"L{lv} grid {p.grid_sizes[lv]}")
        dxn = m.dx[lv][cn]
        eps = 1e-9 * dxn
        # the boxes the plane meets = closed test: interior boxes and boxes touching it with a face
        strict_fp, below_fp, above_fp = [], [], []
        for (blo, bhi) in m.boxes[lv]:
            a = m.geo_low[cn] + blo[cn] * dxn
            e = m.geo_low[cn] + (bhi[cn] + 1) * dxn
            fp = ((blo[cx], blo[cy]), (bhi[cx], bhi[cy]))
            if a + 10 * eps < pos < e - 10 * eps:
                strict_fp.append(fp)
            elif abs(pos - e) <= 10 * eps:
                below_fp.append(fp)
            elif abs(pos - a) <= 10 * eps:
                above_fp.append(fp)
        c = p.cells[lv]
        got_fp = [(tuple(lo), tuple(hi)) for lo, hi in c.indexes]

        def area(fps):
            a_ = np.zeros((int(m.grid_sizes[lv][cx]), int(m.grid_sizes[lv][cy])), dtype=bool)
            for (l_, h_) in fps:
                a_[l_[0]:h_[0] + 1, l_[1]:h_[1] + 1] = True
            return a_
        # every box that contains the plane (closed test, touching boxes included) exactly once
        cg = Counter(got_fp)
        closed = Counter(strict_fp + below_fp + above_fp)
        okfp = cg == closed
        if not okfp:
            bad("footprints", f"L{lv} footprints written {sorted(got_fp)}; boxes containing the plane {sorted(strict_fp)}, "
                f"boxes touching it from below {sorted(below_fp)} / above {sorted(above_fp)}",
                dup=len(got_fp) != len(set(got_fp)), on_face=bool(below_fp or above_fp))
        res["structure"].append((got_fp, list(c.files), list(c.offsets)))
        res["nfiles"].append(len(set(c.files)))
        # per-level expected plane data
        br = mand.bracket(m, lv, cn, pos)
        lvboxes = []
        for ob, fp in enumerate(got_fp):
            lo2, hi2, nc, arr = p.data[lv][ob]
            if nc != len(names):
                bad("fab-ncomp", f"L{lv} box {ob} has {nc} components for {len(names)} fields")
            if c.mins is None:
                bad("minmax-parse", f"L{lv} min/max tables unreadable")
            flat = arr.reshape(-1, nc)
            if not common._rows_close(c.mins[ob], flat.min(axis=0)) or not common._rows_close(c.maxs[ob], flat.max(axis=0)):
                bad("minmax", f"L{lv} box {fp}: min/max rows {c.mins[ob]}/{c.maxs[ob]} are not the extrema of the "
                    f"written data {flat.min(axis=0)}/{flat.max(axis=0)}")
            sx = slice(fp[0][0], fp[1][0] + 1)
            sy = slice(fp[0][1], fp[1][1] + 1)
            mask = np.zeros(arr.shape[:2], dtype=bool)
            if br is not None:
                kl, kr, exact = br
                for k, fname in enumerate(names):
                    fidx = m.fields.index(fname)
                    dense, has = mand.level_cell_field(m, lv, fidx)
                    vl, vr = np.take(dense, kl, axis=cn), np.take(dense, kr, axis=cn)
                    hl, hr = np.take(has, kl, axis=cn), np.take(has, kr, axis=cn)
                    if exact:
                        want = vr
                    else:
                        nl = m.geo_low[cn] + (kl + 0.5) * dxn
                        nr = m.geo_low[cn] + (kr + 0.5) * dxn
                        with np.errstate(all="ignore"):
                            want = (vl * (nr - pos) + vr * (pos - nl)) / (nr - nl)
                    mask = (hl & hr)[sx, sy]
                    if fname == "ext" and exact:
                        continue
                    g = arr[..., k]
                    w = want[sx, sy]
                    with np.errstate(all="ignore"):
                        sc = np.maximum(np.abs(vl), np.abs(vr))[sx, sy]
                    okm = mand.close(g[mask], w[mask], 1e-11, sc[mask])
                    if fname.startswith("aff_" + AX[cn]):
                        okm &= np.abs(g[mask] - mand.aff_value(m, cn, pos)) <= 1e-9 * (abs(mand.A0) + abs(mand.B0))
                    if not okm.all():
                        i = tuple(np.argwhere(mask)[np.argwhere(~okm)[0][0]])
                        bad("box-values", f"L{lv} box {fp} field {fname} at local pixel {i}: {g[i]!r}, that level's own "
                            f"samples interpolated onto the plane give {w[i]!r}", field=fname.split("_")[0], level=min(lv, 1))
                res["checked"] += int(mask.sum()) * len(names)
            lvboxes.append((fp, arr, np.repeat(mask[..., None], nc, axis=2)))
        res["boxes"].append(lvboxes)
    probs = p.strict_problems()
    if probs:
        bad("strict-structure", "slice is not a well-formed plotfile: " + "; ".join(probs[:4]))
    if taste:
        from amr_kitchen.taste import Taster
        for kw in ({}, {"boxes_coordinates": True}):
            o = run_tool(ctx, lambda: bool(Taster(out, nofail=True, verbose=0, **kw)))
            if not o.ok or o.value is not True:
                bad("taste-accepts", f"taste{kw} does not accept the slice: ok={o.ok} value={o.value} exc={o.exc!r} "
                    f"out={o.out[-300:]}")
    return res
