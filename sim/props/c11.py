"""C11 - chef writes recipe(box) under the right names with true min/max."""
import os
import shutil

import numpy as np

from .. import world, core
from ..core import Violation, run_tool
from ..reader import parse_header, FormatError
from . import common, tools

ID = "C11"
LEVEL = "exploration"
BUDGET = {"quick": 8000, "thorough": 160000}
WALL_CAP = {"quick": 600, "thorough": 5400}
MECH = "/repo/test_assets/drm19.yaml"
RULE = ("case = generated 3D plotfile x recipe: user .py recipes (one/two components, by index or by name, +-inf "
        "results) and, for a share of cases, built-in Cantera recipes HRR/ENT/SRi/SDi/RRi on worlds holding temp + the "
        "21 contiguous Y(...) fields of drm19 (physical T/P/Y, plus embedded-boundary style cells with T=0 and sum(Y)=0 "
        "where only kept fields are compared) x kept-field lists x {serial, parallel} x {API, CLI}; SimPool inline or "
        "FORK mode (real forked workers, modelled pathos pool cache) with a second cook in the same process in a share "
        "of runs; poisoned np.empty. Oracle: mesh unchanged; output field names are a permutation of kept+new and each "
        "component, looked up BY NAME, equals the recipe evaluated by the harness on the model box (built-ins: an "
        "independent ct.SolutionArray evaluation, rtol 1e-10) resp. is bit-identical to the kept input field; min/max "
        "rows equal the extrema of the written data; taste accepts; where both modes are run, parallel output is "
        "byte-identical to serial. non-trivial = >=2 binary files at a level or non-monotone layout or kept fields "
        "or a second cook or fork mode; distinct = hash(world, recipe, kept, mode, schedules)")
ASSUMPTIONS = ["Cantera itself is trusted (the same library evaluates the oracle, through an independent "
               "SolutionArray built by the harness)", "cells with T=0 or sum(Y)=0 have no defined thermochemical "
               "state: new fields are not compared there"]

_GAS = {}


def gas():
    import cantera as ct
    if "g" not in _GAS:
        _GAS["g"] = ct.Solution(MECH)
    return _GAS["g"]


def cantera_world(src):
    """World with temp + Y(sp) contiguous for drm19, small boxes."""
    g = gas()
    sp = [s.name for s in g.species()]
    m = world.gen_mesh(src, tag="w", force_3d=True, max_levels=2, max_blocks0=2, bfs=(2,), max_boxes=8)
    pre = src.draw("w.pre", 0, 2)
    post = src.draw("w.post", 0, 1)
    temp_first = src.draw("w.temp_first", 0, 1)
    names = ["density", "x_velocity"][:pre]
    if temp_first:
        names.append("temp")
    ynames = [f"Y({s})" for s in sp]
    permuted = bool(src.draw("w.species_permuted", 0, 5) == 5)
    if permuted:
        # the species block holds every species but not in the mechanism's order (first species kept
        # first): the chef must either refuse it or use each mass fraction for ITS species
        a = src.draw("w.perm.a", 1, len(sp) - 2)
        b = src.draw("w.perm.b", a + 1, len(sp) - 1)
        ynames[a], ynames[b] = ynames[b], ynames[a]
    names += ynames
    if not temp_first:
        names.append("temp")
    names += ["mag_vort"][:post]
    m.fields = names
    world.gen_layout(src, m, tag="w")
    seed = src.draw("w.dataseed", 0, 999999)
    eb = src.draw("w.eb_cells", 0, 1)
    flat = src.draw("w.flat_boxes", 0, 2) == 2
    rng = np.random.default_rng(seed)
    it = names.index("temp")
    iy = names.index(f"Y({sp[0]})")
    m.data = []
    for lv in range(m.nlev):
        lvd = []
        for b in range(len(m.boxes[lv])):
            shape = m.box_shape(lv, b)
            arr = rng.standard_normal(shape + (len(names),))
            arr[..., it] = rng.uniform(300.0, 2500.0, shape)
            Y = rng.uniform(0.0, 1.0, shape + (len(sp),)) ** 3
            Y /= Y.sum(axis=-1, keepdims=True)
            arr[..., iy:iy + len(sp)] = Y
            if flat and rng.uniform() < 0.6:
                # a quiescent region: the box is uniform, or uniform up to a few mK and a few ppb of radicals
                # (a "same state everywhere" shortcut must not take the second for the first)
                T0 = rng.uniform(1200.0, 2000.0)
                Y0 = rng.uniform(0.0, 1.0, len(sp)) ** 3
                Y0 /= Y0.sum()
                if rng.uniform() < 0.3:
                    arr[..., it] = T0
                    arr[..., iy:iy + len(sp)] = Y0
                else:
                    arr[..., it] = T0 * (1.0 + 1e-6 * rng.uniform(-1.0, 1.0, shape))
                    Yb = Y0 * (1.0 + 3e-6 * rng.uniform(-1.0, 1.0, shape + (len(sp),)))
                    rad = rng.choice(len(sp), 3, replace=False)
                    Yb[..., rad] = rng.uniform(0.0, 5e-9, shape + (3,))
                    Yb /= Yb.sum(axis=-1, keepdims=True)
                    arr[..., iy:iy + len(sp)] = Yb
            if eb:
                mask = rng.uniform(size=shape) < 0.15
                arr[mask, it] = 0.0
                arr[mask, iy:iy + len(sp)] = 0.0
            lvd.append(arr)
        m.data.append(lvd)
    world.gen_cosmetics(src, m, "w")
    m.species_permuted = permuted
    m.ycols = [names.index(f"Y({s})") for s in sp]
    return m, it, iy, len(sp)


class ChefBuiltinT(tools.ToolCase):
    name = "chef-builtin"
    has_default_out = True

    def draw(self, ctx, src):
        self.m, self.it, self.iy, self.nsp = cantera_world(src)
        g = gas()
        self.recipe = src.choice("recipe", ["HRR", "ENT", "SRi", "SDi", "RRi"])
        self.species = None
        self.reactions = None
        if self.recipe in ("SRi", "SDi"):
            idx = src.subset("species.set", min(self.nsp, 6), min_size=1)
            self.species = [g.species_name(i * 3 % self.nsp) for i in idx]
            self.species = list(dict.fromkeys(self.species))
        if self.recipe == "RRi":
            self.reactions = sorted({src.draw(f"rx.{k}", 0, g.n_reactions - 1) for k in range(src.draw("rx.n", 1, 3))})
        self.pressure = src.choice("pressure", [1.0, 2.5])
        self.kept = []
        if src.flag("kept"):
            idx = src.subset("kept.set", min(len(self.m.fields), 8), min_size=1)
            if src.flag("kept.permuted"):
                order = src.perm("kept.order", len(idx))
                idx = [idx[k] for k in order]
            self.kept = [self.m.fields[i] for i in idx]
            if src.flag("kept.temp"):
                self.kept.append("temp") if "temp" not in self.kept else None
        self.serial = bool(src.draw("serial", 0, 1))
        self.draw_forms(src, allow_slash=False)
        if self.opts["cli"]:
            self.serial = False
        self.opts.update(recipe=self.recipe, species=self.species, reactions=self.reactions, kept=self.kept,
                         serial=self.serial, pressure=self.pressure)

    def materialise(self, root):
        p = os.path.join(root, "data", "plt00100")
        world.write_plotfile(self.m, p)
        return [p]

    def call(self, ctx, root):
        cwd = self.cwd(root)
        inp = tools.in_path(root, "plt00100", self.opts["in_form"], cwd)
        out_arg, out_abs = self.out_arg(root, "cooked")
        self.out_abs = out_abs
        kept = " ".join(self.kept) if self.kept else None
        if self.opts["cli"]:
            from amr_kitchen.chef import cli
            argv = ["chef", inp, "-r", self.recipe, "-m", MECH, "-p", repr(self.pressure)]
            if out_arg is not None:
                argv += ["-o", out_arg]
            if kept:
                argv += ["-k", kept]
            if self.species:
                argv += ["-s", *self.species]
            if self.reactions:
                argv += ["-R", *map(str, self.reactions)]
            return run_tool(ctx, cli.main, cwd=cwd, argv=argv, label=f"chef {argv[1:]}")
        from amr_kitchen.chef.chef import Chef

        def go():
            Chef(inp, recipe=self.recipe, outfile=out_arg, species=self.species, reactions=self.reactions,
                 mech=MECH, pressure=self.pressure, serial=self.serial, kept_fields=kept).cook()
        return run_tool(ctx, go, cwd=cwd, label=f"Chef({inp},{self.recipe},sp={self.species},rx={self.reactions},"
                                                 f"kept={self.kept},serial={self.serial},out={out_arg})")

    def new_names(self):
        if self.recipe == "HRR":
            return ["HeatRelease"]
        if self.recipe == "ENT":
            return ["Enthalpy"]
        if self.recipe == "SRi":
            return [f"IRm({s})" for s in self.species]
        if self.recipe == "SDi":
            return [f"DI({s})" for s in self.species]
        return [f"R{i}" for i in self.reactions]

    def expected(self):
        import cantera as ct
        g = gas()
        m = self.m
        kidx = [m.fields.index(f) for f in self.kept]
        attr = {"HRR": "heat_release_rate", "ENT": "enthalpy_mass", "SRi": "net_production_rates",
                "SDi": "mix_diff_coeffs_mass", "RRi": "net_rates_of_progress"}[self.recipe]
        self.undefined = {}

        def fn(lv, b, arr):
            T = arr[..., self.it].copy()
            Y = arr[..., self.m.ycols].copy()        # by NAME: column of Y(species k) for mechanism species k
            bad = np.isclose(T, 0) | np.isclose(Y.sum(axis=-1), 0)
            self.undefined[(lv, b)] = bad
            T[np.isclose(T, 0)] = 1000.0
            Y[np.isclose(Y.sum(axis=-1), 0), g.species_index("N2")] = 1.0
            sa = ct.SolutionArray(g, T.shape)
            sa.TPY = T, self.pressure * ct.one_atm * np.ones(T.shape), Y
            val = getattr(sa, attr)
            if self.recipe in ("SRi", "SDi"):
                val = val[..., [g.species_index(s) for s in self.species]]
            elif self.recipe == "RRi":
                val = val[..., self.reactions]
            else:
                val = val[..., None]
            return np.concatenate([arr[..., kidx], val], axis=-1)
        return m.with_fields(list(self.kept) + self.new_names(), fn)


def check_chef_output(ctx, sig, tool, out, tol_new):
    """Name-based comparison: the statement fixes no order between kept and new fields."""
    expect = tool.expected()
    try:
        h = parse_header(out)
    except (FormatError, OSError, ValueError, IndexError) as e:
        raise Violation({**sig, "oracle": "output-parses"}, f"cannot parse output Header: {type(e).__name__}: {e}")
    want_names = list(expect.fields)
    if sorted(h.fields) != sorted(want_names):
        raise Violation({**sig, "oracle": "field-names"},
                        f"output fields {h.fields} are not a permutation of kept+new {want_names}")
    order = [want_names.index(f) for f in h.fields]
    nk = len(tool.kept)
    exp2 = expect.copy_meta()
    exp2.fields = list(h.fields)
    undefined = getattr(tool, "undefined", {})
    exp2.data = [[arr[..., order] for arr in lv] for lv in expect.data]
    rtol = [0 if want_names.index(f) < nk else tol_new for f in h.fields]
    if undefined and any(v.any() for v in undefined.values()):
        # mask cells without a defined state: copy the written values into the expectation for new fields
        from ..reader import PlotOnDisk
        try:
            p = PlotOnDisk(out)
            for lv in range(exp2.nlev):
                emap = {box: b for b, box in enumerate(exp2.boxes[lv])}
                for ob, box in enumerate(p.cells[lv].indexes):
                    if box in emap and p.data[lv][ob][3].shape == exp2.data[lv][emap[box]].shape:
                        bad = undefined[(lv, emap[box])]
                        for k, f in enumerate(h.fields):
                            if want_names.index(f) >= nk:
                                e = exp2.data[lv][emap[box]]
                                e = e.copy() if not e.flags.writeable or True else e
                                e[bad, k] = p.data[lv][ob][3][bad, k]
                                exp2.data[lv][emap[box]] = e
        except (FormatError, OSError, ValueError, IndexError):
            pass
    common.check_output_plotfile(ctx, sig, out, exp2, minmax="true" if not undefined or True else None,
                                 rtol=rtol if tol_new else None)


def run_case(ctx):
    src = ctx.src
    common.draw_env(ctx)
    builtin = src.flag("builtin", 4)
    ctx.fork_mode = bool(src.draw("pool.fork", 0, 2) == 2)
    tool = ChefBuiltinT() if builtin else tools.ChefUserT()
    tool.draw(ctx, src)
    if tool.opts["in_form"] == "dot":
        tool.opts["in_form"] = "rel"
    if tool.opts["in_form"].endswith("/"):
        tool.opts["in_form"] = tool.opts["in_form"][:-1]
    if tool.opts["out"] == "default":
        tool.opts["out"] = "abs"
    n_earlier = src.draw("second_cook", 0, 2)       # earlier cooks in the same process: 0, 1 or 2
    n_earlier = {0: 0, 1: 0, 2: 1}[n_earlier] if not src.flag("two_earlier", 3) or n_earlier < 2 else 2
    twice = n_earlier > 0
    if twice:
        # cached workers keep the cwd they were forked in: do not make the outcome depend on the
        # harness changing directory between the two cooks
        tool.opts["in_form"] = "abs"
        tool.opts["out"] = "abs"
    both = bool(src.draw("both_modes", 0, 2) == 2) and not tool.opts["cli"]
    sig = {"property": ID, "recipe": getattr(tool, "recipe", None) or tool.opts.get("recipe"),
           "permuted_species": bool(getattr(tool.m, "species_permuted", False)),
           "kept": bool(tool.kept), "mode": "serial" if tool.serial else "parallel",
           "entry": "cli" if tool.opts["cli"] else "api"}
    tol = 1e-10 if builtin else 0
    root = os.path.join(ctx.scratch, "run0")
    tool.prepare_root(root)
    for e in range(n_earlier):
        # earlier cooks in the same process (other plotfiles, other box shapes, other pressure):
        # a Cantera cook populates the worker-side globals, a plain user recipe does not need them;
        # with two earlier cooks the kinds alternate (Cantera first), otherwise the kind follows
        # the cook under test
        use_builtin = builtin if n_earlier == 1 else (e == 0)
        r0 = os.path.join(ctx.scratch, f"earlier{e}")
        if use_builtin:
            b0 = ChefBuiltinT()
            b0.m, b0.it, b0.iy, b0.nsp = cantera_world_small(src, e)
            b0.recipe, b0.species, b0.reactions, b0.pressure, b0.kept, b0.serial = "HRR", None, None, 0.5, [], False
            b0.opts.update(in_form="abs", cwd="work", out="abs", cli=False)
            first = b0
        else:
            first = tools.ChefUserT()
            first.m = world.gen_world(src, tag=f"first{e}", force_3d=True, special_ok=False, max_levels=2)
            first.kind, first.i, first.j, first.newnames, first.kept = "lin", 0, 0, ["new_a"], []
            first.serial = False
            first.opts.update(in_form="abs", cwd="work", out="abs", cli=False)
        first.prepare_root(r0)
        first.call(ctx, r0)
        ctx.probe("earlier_cooks")
        ctx.reset_pools(keep_pathos_cache=True)
    if not builtin and src.flag("hist.same_path", 6):
        # the same cook ran before, in this process, on a twin plotfile living at the same path
        import copy
        from ..choice import RandomSource
        sub = RandomSource(src.draw("hist.seed", 0, 9999))
        t2 = copy.copy(tool)
        t2.opts = dict(tool.opts)
        t2.m = tool.m.copy_meta()
        world.gen_layout(sub, t2.m, tag="t")
        world.fill_random(t2.m, sub.draw("t.data", 0, 999999))
        shutil.rmtree(root)
        t2.prepare_root(root)
        try:
            t2.call(ctx, root)
        except Exception:
            pass
        if src.flag("hist.keep_output"):
            shutil.rmtree(os.path.join(root, "data"))
            ctx.probe("history.output_preexisting")
            both = False        # (stale files of the earlier output would differ between the two trees)
        else:
            shutil.rmtree(root)
        tool.prepare_root(root)
        ctx.probe("history.same-path")
    o = tool.call(ctx, root)
    if not o.ok and getattr(tool.m, "species_permuted", False):
        # refusing a species block that is not in the mechanism's order is the documented behaviour
        ctx.probe("permuted_species_refused")
        ctx.nontrivial = True
        ctx.case_key = common.key_of(["permuted-refused", tool.describe()])
        ctx.sample = {"tool": tool.describe(), "permuted_species": True, "refused": True}
        return
    if not o.ok:
        raise Violation({**sig, "oracle": "cook-raises", **o.exc_sig(), "second_cook": twice, "fork": ctx.fork_mode},
                        f"chef raised {o.exc!r}; {tool.describe()}; second_cook={twice} fork={ctx.fork_mode}")
    check_chef_output(ctx, sig, tool, tool.out_abs, tol)
    if both:
        d1 = common.tree_digest(tool.out_abs)
        root2 = os.path.join(ctx.scratch, "run1")
        tool.prepare_root(root2)
        tool.serial = not tool.serial
        o2 = tool.call(ctx, root2)
        tool.serial = not tool.serial
        if not o2.ok:
            raise Violation({**sig, "oracle": "other-mode-raises", **o2.exc_sig()},
                            f"chef in {'serial' if not tool.serial else 'parallel'} mode raised {o2.exc!r} where "
                            f"the other mode succeeded; {tool.describe()}")
        d2 = common.tree_digest(tool.out_abs)
        if d1 != d2:
            diff = sorted(k for k in set(d1) | set(d2) if d1.get(k) != d2.get(k))
            raise Violation({**sig, "oracle": "serial-vs-parallel"},
                            f"serial and parallel outputs differ in {diff[:5]}; {tool.describe()}")
    m = tool.m
    if tool.kept or twice or ctx.fork_mode or not m.is_monotone() or any(len({f for f, _ in l}) >= 2 for l in m.layout):
        ctx.nontrivial = True
    ctx.case_key = common.key_of([m.summary(), tool.describe(), twice, both, ctx.fork_mode, sorted(map(str, ctx.sigs))])
    ctx.sample = {"world": m.summary() if not builtin else {**m.summary(), "fields": f"{len(m.fields)} fields incl. temp + 21 Y()"},
                  "tool": tool.describe(), "fork_pool": ctx.fork_mode, "second_cook": twice, "both_modes": both}


def cantera_world_small(src, e=0):
    from ..choice import RandomSource
    w = cantera_world(RandomSource(src.draw(f"first{e}.seed", 0, 999)))
    if getattr(w[0], "species_permuted", False):
        w = cantera_world(RandomSource(0))
    return w


def evidence_extra(stats):
    return {"fork_units_run": stats.get("fork.units", 0), "fork_workers_started": stats.get("fork.workers_started", 0),
            "pathos_cache_hits": stats.get("fork.pathos_cache_hit", 0)}
