"""SimMem: the name `np` inside every amr_kitchen module is rebound to a thin proxy whose
empty/empty_like return seeded poison instead of whatever the allocator left behind.
Everything else forwards to numpy.  Oracle use is differential: the same case executed
under two different poisons must give bit-identical observable results.
"""
import os
import sys
import numpy as _np

from . import core

POISONS = [
    ("nan", float("nan")),
    ("huge", 1.2345e+300),
    ("neghuge", -9.8765e+299),
    ("small", 3.0e-310),
    ("seven", 7.0),
]
INT_POISONS = [-(2 ** 62) + 12345, 2 ** 61 + 777, -1, 123456789]


def _fill(arr):
    ctx = core.CUR
    k = ctx.poison if (ctx is not None and ctx.poison is not None) else None
    if k is None:
        # no simulated case active: behave like zeros (deterministic)
        arr[...] = 0
        return arr
    if ctx is not None:
        ctx.stats["mem.empty_calls"] += 1
    if arr.dtype.kind == "f":
        arr[...] = POISONS[k % len(POISONS)][1]
    elif arr.dtype.kind in "iu":
        arr[...] = INT_POISONS[k % len(INT_POISONS)]
    elif arr.dtype.kind == "b":
        arr[...] = bool(k % 2)
    elif arr.dtype.kind == "O":
        arr[...] = None
    return arr


class NpProxy:
    def __init__(self):
        self.__dict__["_np"] = _np

    def __getattr__(self, name):
        return getattr(_np, name)

    def empty(self, shape, dtype=float, order="C", **kw):
        return _fill(_np.empty(shape, dtype=dtype, order=order, **kw))

    def empty_like(self, prototype, dtype=None, order="K", subok=True, shape=None, **kw):
        return _fill(_np.empty_like(prototype, dtype=dtype, order=order, subok=subok,
                                    shape=shape, **kw))


    def fromfile(self, file, dtype=float, count=-1, sep="", offset=0, **kw):
        # np.fromfile reads through a duplicate of the descriptor, bypassing the Python file object: a
        # simulated unreadable region has to be honoured here.  fread() returns a short count on an I/O
        # error and numpy returns the shorter array without complaint - that is what is modelled.
        raw = getattr(file, "raw", file)
        if isinstance(raw, core.FaultyRaw) and sep == "":
            item = _np.dtype(dtype).itemsize
            pos = file.tell() + offset
            size = os.fstat(raw.fileno()).st_size
            want = (size - pos) // item if count is None or count < 0 else count
            can = raw.readable_span(pos, want * item) // item
            if can < want and pos + can * item < size:
                ctx = raw._ctx
                ctx.faults_fired.append((-1, "read", raw._kind + ":fromfile-short", ctx.rel(core._path_of(raw._path)), ctx.actor))
                ctx.stats["fault.read." + raw._kind + ".fromfile_short"] += 1
                ctx.ev("fault", "read", raw._kind, "fromfile short", can, "of", want, ctx.actor)
                count = can
        return _np.fromfile(file, dtype=dtype, count=count, sep=sep, offset=offset, **kw)


PROXY = NpProxy()


def install_mem():
    """Rebind `np` in every amr_kitchen module that has it."""
    n = 0
    for name, mod in list(sys.modules.items()):
        if name == "amr_kitchen" or name.startswith("amr_kitchen."):
            if getattr(mod, "np", None) is _np:
                mod.np = PROXY
                n += 1
    return n
