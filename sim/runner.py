"""Case execution, shrinking, replay files, process fan-out, evidence, exit codes.

usage (via /verif/check):
    check <ID> [--tier quick|thorough] [--replay FILE] [--cases N] [--procs P]
exit 0: property held on everything explored (KNOWN-FINDING lines allowed)
exit 1: VIOLATION property=<id> replay=<path>
exit 2: harness error (never prints VIOLATION)
"""
import argparse
import faulthandler
import gc
import hashlib
import importlib
import json
import os
import shutil
import signal
import subprocess
import sys
import tempfile
import time
import traceback

HERE = os.path.dirname(os.path.abspath(__file__))
VERIF = os.path.dirname(HERE)
if VERIF not in sys.path:
    sys.path.insert(0, VERIF)

from sim import core                      # noqa: E402
from sim.choice import RandomSource, ReplaySource, ReplayMismatch, case_seed   # noqa: E402
from sim.core import Violation, HarnessError, Discard                          # noqa: E402

PERF = time.perf_counter
PY = sys.executable
REPLAY_DIR = os.path.join(VERIF, "replays")
EVID_DIR = os.path.join(VERIF, "evidence")
KNOWN_FILE = os.path.join(VERIF, "known_findings.json")
CASE_TIMEOUT = 120


def scratch_root():
    base = "/dev/shm" if os.path.isdir("/dev/shm") and os.access("/dev/shm", os.W_OK) else tempfile.gettempdir()
    return base


_ENV_READY = False


def setup_process():
    """Install all seams once per process."""
    global _ENV_READY
    if _ENV_READY:
        return
    os.environ.setdefault("TQDM_DISABLE", "1")
    os.environ.setdefault("MPLBACKEND", "Agg")
    import tqdm
    tqdm.tqdm.monitor_interval = 0
    import amr_kitchen     # noqa: F401  (from /repo working tree, editable install or AMRK_REPO)
    import amr_kitchen.whip.cli   # noqa: F401
    import amr_kitchen.menu.menu  # noqa: F401
    import amr_kitchen.marinate   # noqa: F401
    import amr_kitchen.minuterie  # noqa: F401
    import amr_kitchen.pestle.cli  # noqa: F401
    import amr_kitchen.colander.cli  # noqa: F401
    import amr_kitchen.combine.cli  # noqa: F401
    import amr_kitchen.chef.cli  # noqa: F401
    import amr_kitchen.mandoline.cli  # noqa: F401
    import amr_kitchen.taste.cli  # noqa: F401
    import amr_kitchen.chk2plt.cli  # noqa: F401
    from sim import pool, mem
    core.install_seams()
    pool.install_pools()
    mem.install_mem()
    import numpy as np
    np.seterr(all="ignore")
    import warnings
    warnings.simplefilter("ignore")
    snapshot_process_state()
    core.FRESH_PROCESS_HOOK = reset_process_state
    _ENV_READY = True


_BASELINE_STATE = None


def _mutable_state():
    """(owner, name) -> value for every module-level and class-level dict/list/set of amr_kitchen."""
    import copy
    out = {}
    for mname, mod in list(sys.modules.items()):
        if not (mname == "amr_kitchen" or mname.startswith("amr_kitchen.")) or mod is None:
            continue
        owners = [mod] + [v for v in vars(mod).values() if isinstance(v, type) and getattr(v, "__module__", "") == mname]
        for ow in owners:
            for k, v in list(vars(ow).items()):
                if k.startswith("__"):
                    continue
                if isinstance(v, (dict, list, set)):
                    out[(ow, k)] = v
    return out


_BASELINE_IDS = None


def _owners():
    for mname, mod in list(sys.modules.items()):
        if not (mname == "amr_kitchen" or mname.startswith("amr_kitchen.")) or mod is None:
            continue
        yield mod
        for v in list(vars(mod).values()):
            if isinstance(v, type) and getattr(v, "__module__", "") == mname:
                yield v


def snapshot_process_state():
    global _BASELINE_STATE, _BASELINE_IDS
    import copy
    _BASELINE_STATE = {}
    for key, v in _mutable_state().items():
        try:
            _BASELINE_STATE[key] = copy.deepcopy(v)
        except Exception:
            pass
    # identity of EVERY module-level and class-level attribute (a pool, a cache object, a rebound
    # global kept by one case must not be met by the next)
    _BASELINE_IDS = {}
    for ow in _owners():
        _BASELINE_IDS[ow] = {k: v for k, v in vars(ow).items() if not k.startswith("__")}


def restore_process_state():
    """Class-level and module-level containers of amr_kitchen are restored to what they were when the
    worker started, so state leaked by one case (e.g. a class attribute rewritten by a tool) cannot
    decide the outcome of a later case: history dependence has to show inside ONE case."""
    import copy
    if _BASELINE_STATE is None:
        return 0
    n = 0
    for ow, base in (_BASELINE_IDS or {}).items():
        cur = vars(ow)
        for k in [k for k in cur if not k.startswith("__") and k not in base]:
            try:
                delattr(ow, k)
                n += 1
            except Exception:
                pass
        for k, v in base.items():
            if cur.get(k, None) is not v:
                try:
                    setattr(ow, k, v)
                    n += 1
                except Exception:
                    pass
    try:
        import functools
        import gc
        # function-level caches (functools.lru_cache) of the package
        for ow in (_BASELINE_IDS or {}):
            for v in list(vars(ow).values()):
                if hasattr(v, "cache_clear") and callable(getattr(v, "cache_clear", None)):
                    v.cache_clear()
    except Exception:
        pass
    for (ow, k), base in _BASELINE_STATE.items():
        cur = vars(ow).get(k)
        try:
            same = cur == base
        except Exception:
            same = False
        if not same:
            setattr(ow, k, copy.deepcopy(base))
            n += 1
    return n


def reset_process_state():
    """Undo process-global mutations the tools make, so a case's outcome does not depend
    on which cases ran before it in this worker."""
    restore_process_state()
    import amr_kitchen.chef.chef as chef_mod
    chef_mod.SARRAYS = None
    chef_mod.PRESSURES = None
    sys.modules.pop("user_recipe", None)
    # chef appends recipe directories to sys.path
    sys.path[:] = [p for p in sys.path if "amrk-verif" not in p]
    try:
        import matplotlib.pyplot as plt
        plt.close("all")
    except Exception:
        pass


class CaseResult:
    def __init__(self):
        self.status = "ok"        # ok | violation | discard | harness_error
        self.sig = None
        self.msg = ""
        self.log = []
        self.digest = ""
        self.stats = {}
        self.sigs = 0
        self.sig_hashes = []
        self.nontrivial = False
        self.key = None
        self.sample = None
        self.describe = None
        self.events = 0
        self.tb = ""
        self.faults = []


def _alarm(signum, frame):
    raise HarnessError("case wall-clock timeout")


def run_case(mod, src, tier, keep_events=False):
    """Execute one case of property module `mod` under choice source `src`."""
    setup_process()
    res = CaseResult()
    scratch = tempfile.mkdtemp(prefix=f"amrk-verif-{os.getpid()}-", dir=scratch_root())
    ctx = core.Ctx(src, scratch, prop=mod.ID, tier=tier)
    ctx.listdir_rot = 0
    ctx.nontrivial_sched = False
    ctx.i3_violations = []
    core.CUR = ctx
    old = signal.signal(signal.SIGALRM, _alarm)
    signal.setitimer(signal.ITIMER_REAL, CASE_TIMEOUT)
    cwd0 = os.getcwd()
    try:
        try:
            mod.run_case(ctx)
            if ctx.i3_violations:
                ctx.stats["probe.I3_broken"] += 1
            hz = getattr(ctx, "race_hazards", None)
            if hz and mod.ID != "C13":
                # (C13 is about where writes land and whether failures are reported, not about values)
                raise Violation({"property": mod.ID, "oracle": "shared-file-offset", "call": hz[0]["call"]},
                                f"{len(hz[0]['units'])}+ tasks of one pool call (W={hz[0]['W']}) move the offset of one "
                                f"file description inherited from the parent ({hz[0]['path']}): in the real pool "
                                f"they run concurrently and read from wherever the other left the offset: {hz[0]}")
            if ctx.i3_violations and mod.ID == "C12":
                v = ctx.i3_violations[0]
                raise Violation({"property": "C12", "oracle": "I3-task-isolation", "call": v["call"],
                                 "what": v["what"]},
                                f"task isolation broken: {v}")
        except Violation as v:
            res.status = "violation"
            res.sig = v.sig
            res.msg = ctx.clean(v.msg)
        except Discard as d:
            res.status = "discard"
            res.msg = str(d)
        except ReplayMismatch as e:
            res.status = "harness_error"
            res.msg = f"replay mismatch: {e}"
        except HarnessError as e:
            res.status = "harness_error"
            res.msg = f"harness: {e}"
            res.tb = traceback.format_exc()
        except BaseException as e:
            if isinstance(e, KeyboardInterrupt):
                raise
            res.status = "harness_error"
            res.msg = f"uncaught {type(e).__name__}: {e}"
            res.tb = traceback.format_exc()
    finally:
        signal.setitimer(signal.ITIMER_REAL, 0)
        signal.signal(signal.SIGALRM, old)
        core.CUR = None
        ctx.recording = False
        ctx.inject = False
        try:
            ctx.reset_pools()
        except Exception:
            pass
        try:
            os.chdir(cwd0)
        except Exception:
            pass
        sys.stdout = sys.__stdout__
        sys.stderr = sys.__stderr__
        shutil.rmtree(scratch, ignore_errors=True)
        reset_process_state()
    res.log = [list(c) for c in src.log]
    res.digest = ctx.digest()
    res.stats = dict(ctx.stats)
    res.sig_hashes = [hashlib.sha1(repr(s).encode()).hexdigest()[:16] for s in ctx.sigs]
    res.nontrivial = bool(ctx.nontrivial)
    res.key = getattr(ctx, "case_key", None)
    res.sample = getattr(ctx, "sample", None)
    res.describe = ctx.describe
    res.events = len(ctx.events)
    res.faults = list(ctx.faults_fired)
    if keep_events:
        res.event_log = list(ctx.events)
    return res


# ============================================================================ shrinking

def shrink(mod, tier, log, sig, budget=300, wall=90.0):
    """Internal reduction of the choice sequence: delete chunks, zero values, binary
    search values towards their lower bound; keep a candidate iff the run fails with the
    same signature; after each success continue from the log actually consumed."""
    t0 = PERF()
    runs = 0
    best = [list(c) for c in log]

    def attempt(cand):
        nonlocal runs, best
        if runs >= budget or PERF() - t0 > wall:
            return False
        runs += 1
        src = ReplaySource(cand, strict=False)
        r = run_case(mod, src, tier)
        if r.status == "violation" and r.sig == sig:
            new = r.log
            if len(new) < len(best) or (len(new) == len(best) and _weight(new) < _weight(best)):
                best = new
                return True
        return False

    improved = True
    while improved and runs < budget and PERF() - t0 <= wall:
        improved = False
        # 1. delete chunks from the tail forwards
        for size in (16, 8, 4, 2, 1):
            i = len(best) - size
            while i >= 0:
                cand = best[:i] + best[i + size:]
                if attempt(cand):
                    improved = True
                    i = min(i, len(best) - size)
                else:
                    i -= size
                if runs >= budget:
                    break
        # 2. lower values
        i = 0
        while i < len(best) and runs < budget:
            label, lo, hi, v = best[i]
            if v > lo:
                cand = [list(c) for c in best]
                cand[i][3] = lo
                if attempt(cand):
                    improved = True
                else:
                    # binary search towards lo
                    a, b = lo, v
                    while b - a > 1 and runs < budget:
                        mid = (a + b) // 2
                        cand = [list(c) for c in best]
                        if i >= len(cand):
                            break
                        cand[i][3] = mid
                        if attempt(cand):
                            improved = True
                            b = mid
                        else:
                            a = mid
            i += 1
    return best, runs


def _weight(log):
    return sum(c[3] - c[1] for c in log)


# ============================================================================ known findings

def load_known():
    if not os.path.exists(KNOWN_FILE):
        return []
    with open(KNOWN_FILE) as f:
        return json.load(f).get("findings", [])


def match_known(sig, known, prop):
    for k in known:
        if k.get("status") != "open" or k.get("property") != prop:
            continue
        if all(sig.get(a) == b for a, b in k.get("match", {}).items()):
            return k
    return None


# ============================================================================ worker

def worker_main(args):
    faulthandler.enable()
    mod = importlib.import_module(f"sim.props.{args.prop.lower()}")
    setup_process()
    known = load_known()
    out = {"cases": 0, "ok": 0, "discard": 0, "violations": [], "known": {}, "harness": [],
           "stats": {}, "sig_hashes": [], "keys": [], "samples": [], "events": 0,
           "nontrivial": 0, "wall": 0.0, "capped": False, "case_digests": {}}
    sigset = set()
    keyset = set()
    seen_sigs = {}
    t0 = PERF()
    i = args.index
    while i < args.cases:
        if PERF() - t0 > args.wall_cap:
            out["capped"] = True
            break
        seed = case_seed(args.seed, args.prop, i)
        src = RandomSource(seed, forced=json.loads(os.environ.get("AMRK_FORCE", "{}")))
        r = run_case(mod, src, args.tier)
        out["cases"] += 1
        out["events"] += r.events
        for k, v in r.stats.items():
            out["stats"][k] = out["stats"].get(k, 0) + v
        sigset.update(r.sig_hashes)
        if args.digests:
            out["case_digests"][str(i)] = r.digest + "|" + r.status + "|" + json.dumps(r.sig, sort_keys=True)
        if r.status == "ok":
            out["ok"] += 1
            if r.nontrivial and r.key is not None:
                keyset.add(r.key)
            if r.sample is not None and len(out["samples"]) < 3:
                out["samples"].append(r.sample)
        elif r.status == "discard":
            out["discard"] += 1
        elif r.status == "violation":
            kf = match_known(r.sig, known, args.prop)
            sk = json.dumps(r.sig, sort_keys=True)
            if kf is not None:
                e = out["known"].setdefault(kf["id"], {"count": 0, "what": kf["what"], "case": i,
                                                       "sig": r.sig, "msg": r.msg[:300]})
                e["count"] += 1
                if r.nontrivial and r.key is not None:
                    keyset.add(r.key)
            elif sk in seen_sigs:
                seen_sigs[sk]["count"] += 1
            else:
                # new violation: minimise, write the replay file
                small, runs = shrink(mod, args.tier, r.log, r.sig,
                                     budget=args.shrink_budget, wall=args.shrink_wall)
                rs = run_case(mod, ReplaySource(small, strict=True), args.tier)
                if rs.status != "violation" or rs.sig != r.sig:
                    # shrunk log does not replay strictly: fall back to the original log
                    rs = run_case(mod, ReplaySource(r.log, strict=True), args.tier)
                    small = r.log
                rec = {"property": args.prop, "tier": args.tier, "verif_seed": args.seed, "case": i,
                       "case_seed": seed, "choices": small, "original_len": len(r.log),
                       "shrink_runs": runs, "describe": rs.describe,
                       "violation": {"signature": r.sig, "message": rs.msg or r.msg,
                                     "event_digest": rs.digest, "status": rs.status}}
                h = hashlib.sha1(json.dumps(small).encode()).hexdigest()[:10]
                os.makedirs(REPLAY_DIR, exist_ok=True)
                path = os.path.join(REPLAY_DIR, f"{args.prop}-{h}.json")
                with open(path, "w") as f:
                    json.dump(rec, f, indent=1)
                ent = {"sig": r.sig, "msg": r.msg, "replay": path, "case": i, "count": 1,
                       "replays_in_worker": rs.status == "violation" and rs.sig == r.sig}
                seen_sigs[sk] = ent
                out["violations"].append(ent)
        else:
            out["harness"].append({"case": i, "msg": r.msg, "tb": r.tb[-3000:]})
            if len(out["harness"]) > 5:
                break
        i += args.nproc
    out["sig_hashes"] = sorted(sigset)
    out["keys"] = sorted(keyset)
    out["wall"] = PERF() - t0
    with open(args.out, "w") as f:
        json.dump(out, f)
    return 0


# ============================================================================ replay

def replay_main(args):
    with open(args.replay) as f:
        rec = json.load(f)
    prop = rec["property"]
    mod = importlib.import_module(f"sim.props.{prop.lower()}")
    r = run_case(mod, ReplaySource(rec["choices"], strict=True), rec.get("tier", "quick"),
                 keep_events=True)
    want = rec["violation"]
    out = {"status": r.status, "sig": r.sig, "digest": r.digest, "msg": r.msg}
    if args.json:
        print(json.dumps(out))
    else:
        print(f"replay of {args.replay}: status={r.status}")
        print(f"  signature: {json.dumps(r.sig, sort_keys=True)}")
        print(f"  message:   {r.msg}")
        print(f"  digest:    {r.digest} (recorded {want.get('event_digest')})")
        if args.verbose:
            for e in r.event_log:
                print("   ", e)
        if r.status == "harness_error":
            print(r.tb)
    if r.status == "violation" and r.sig == want["signature"]:
        if r.digest != want.get("event_digest"):
            print("NOTE: same violation, different event digest")
            return 3
        if not args.json:
            print(f"VIOLATION property={prop} replay={args.replay}")
        return 1
    if r.status == "ok":
        return 0
    return 2


# ============================================================================ main

def child_env():
    env = dict(os.environ)
    env.update({"PYTHONHASHSEED": env.get("AMRK_HASHSEED", "0"), "AMR_KITCHEN_VERIF": "1",
                "TQDM_DISABLE": "1", "OMP_NUM_THREADS": "1", "OPENBLAS_NUM_THREADS": "1",
                "MKL_NUM_THREADS": "1", "MPLBACKEND": "Agg", "PYTHONDONTWRITEBYTECODE": "1",
                "MPLCONFIGDIR": os.path.join(scratch_root(), "amrk-mplconfig")})
    repo = env.get("AMRK_REPO")
    if repo:
        env["PYTHONPATH"] = repo + os.pathsep + env.get("PYTHONPATH", "")
    return env


def main(argv=None):
    ap = argparse.ArgumentParser()
    ap.add_argument("prop")
    ap.add_argument("--tier", default=os.environ.get("VERIF_TIER", "quick"))
    ap.add_argument("--replay")
    ap.add_argument("--case", type=int)
    ap.add_argument("--cases", type=int)
    ap.add_argument("--procs", type=int, default=int(os.environ.get("AMRK_PROCS", "16")))
    ap.add_argument("--seed", type=int, default=int(os.environ.get("VERIF_SEED", "0") or 0))
    ap.add_argument("--wall-cap", type=float)
    ap.add_argument("--json", action="store_true")
    ap.add_argument("--verbose", "-v", action="store_true")
    ap.add_argument("--digests", help="write per-case digests to this file (determinism self-test)")
    ap.add_argument("--no-evidence", action="store_true")
    # worker-only
    ap.add_argument("--worker", action="store_true")
    ap.add_argument("--index", type=int, default=0)
    ap.add_argument("--nproc", type=int, default=1)
    ap.add_argument("--out")
    ap.add_argument("--shrink-budget", type=int, default=250)
    ap.add_argument("--shrink-wall", type=float, default=90.0)
    args = ap.parse_args(argv)
    args.prop = args.prop.upper()
    if args.tier not in ("quick", "thorough"):
        args.tier = "quick"

    if args.replay:
        if os.environ.get("AMRK_CHILD") != "1":
            # a replay is a function of the file and the code only: re-execute in an interpreter prepared exactly
            # like the workers that produced it (fixed hash seed, hook guard on, single-threaded libraries)
            env = child_env()
            env["AMRK_CHILD"] = "1"
            return subprocess.run([PY, "-X", "faulthandler", os.path.join(HERE, "runner.py")] + list(argv if argv is not None else sys.argv[1:]),
                                  env=env, cwd=VERIF).returncode
        return replay_main(args)
    if args.case is not None:
        mod = importlib.import_module(f"sim.props.{args.prop.lower()}")
        os.environ.update({k: v for k, v in child_env().items() if k in ("TQDM_DISABLE", "MPLBACKEND", "MPLCONFIGDIR", "AMR_KITCHEN_VERIF")})
        r = run_case(mod, RandomSource(case_seed(args.seed, args.prop, args.case), forced=json.loads(os.environ.get("AMRK_FORCE", "{}"))), args.tier, keep_events=True)
        print(f"case {args.case}: status={r.status} sig={r.sig}\n  msg={r.msg}\n  sample={r.sample}\n  stats={r.stats}")
        if args.verbose:
            for e in r.event_log:
                print("   ", e)
        if r.tb:
            print(r.tb)
        return 0
    if args.worker:
        if args.wall_cap is None:
            args.wall_cap = 1e9
        return worker_main(args)

    mod = importlib.import_module(f"sim.props.{args.prop.lower()}")
    ncases = args.cases if args.cases is not None else mod.BUDGET[args.tier]
    wall_cap = args.wall_cap if args.wall_cap is not None else mod.WALL_CAP[args.tier]
    P = max(1, min(args.procs, ncases))
    t0 = PERF()
    tmpd = tempfile.mkdtemp(prefix="amrk-verif-main-", dir=scratch_root())
    procs = []
    env = child_env()
    for i in range(P):
        outp = os.path.join(tmpd, f"w{i}.json")
        cmd = [PY, "-X", "faulthandler", os.path.join(HERE, "runner.py"), args.prop, "--worker",
               "--tier", args.tier, "--seed", str(args.seed), "--index", str(i), "--nproc", str(P),
               "--cases", str(ncases), "--out", outp, "--wall-cap", str(wall_cap),
               "--shrink-budget", str(args.shrink_budget), "--shrink-wall", str(args.shrink_wall)]
        if args.digests:
            cmd += ["--digests", "1"]
        logf = open(os.path.join(tmpd, f"w{i}.log"), "w")
        procs.append((subprocess.Popen(cmd, env=env, stdout=logf, stderr=subprocess.STDOUT,
                                       cwd=VERIF), outp, logf))
    hard = wall_cap + 600
    results = []
    dead = []
    for p, outp, logf in procs:
        left = max(1.0, hard - (PERF() - t0))
        try:
            rc = p.wait(timeout=left)
        except subprocess.TimeoutExpired:
            p.kill()
            p.wait()
            rc = -9
        logf.close()
        if rc != 0 or not os.path.exists(outp):
            with open(logf.name) as f:
                dead.append((rc, f.read()[-4000:]))
            continue
        with open(outp) as f:
            results.append(json.load(f))
    wall = PERF() - t0
    rc = finish(args, mod, results, dead, wall, ncases, P)
    shutil.rmtree(tmpd, ignore_errors=True)
    return rc


def finish(args, mod, results, dead, wall, ncases, P):
    prop = args.prop
    total = sum(r["cases"] for r in results)
    stats = {}
    sigs = set()
    keys = set()
    samples = []
    known = {}
    viols = []
    harness = []
    events = 0
    capped = False
    digests = {}
    for r in results:
        for k, v in r["stats"].items():
            stats[k] = stats.get(k, 0) + v
        sigs.update(r["sig_hashes"])
        keys.update(r["keys"])
        samples.extend(r["samples"])
        events += r["events"]
        capped = capped or r["capped"]
        for kid, e in r["known"].items():
            k = known.setdefault(kid, dict(e, count=0))
            k["count"] += e["count"]
        viols.extend(r["violations"])
        harness.extend(r["harness"])
        digests.update(r.get("case_digests", {}))
    if args.digests:
        with open(args.digests, "w") as f:
            json.dump(digests, f, sort_keys=True, indent=0)
    # de-duplicate violations across workers by signature; verify each replay in a fresh interpreter
    uniq = {}
    for v in viols:
        sk = json.dumps(v["sig"], sort_keys=True)
        if sk not in uniq:
            uniq[sk] = v
        else:
            uniq[sk]["count"] += v["count"]
    confirmed = []
    for sk, v in uniq.items():
        cmd = [PY, os.path.join(HERE, "runner.py"), prop, "--replay", v["replay"], "--json"]
        try:
            p = subprocess.run(cmd, env=child_env(), capture_output=True, text=True, timeout=600,
                               cwd=VERIF)
            line = [l for l in p.stdout.splitlines() if l.startswith("{")]
            rr = json.loads(line[-1]) if line else {"status": "harness_error", "msg": p.stdout[-500:] + p.stderr[-1500:]}
        except subprocess.TimeoutExpired:
            rr = {"status": "harness_error", "msg": "replay timeout"}
        if rr.get("status") == "violation" and rr.get("sig") == v["sig"]:
            confirmed.append(v)
        else:
            harness.append({"case": v["case"], "msg": f"violation did not replay in a fresh interpreter: {rr}",
                            "tb": v["msg"]})
    ok = sum(r["ok"] for r in results)
    discard = sum(r["discard"] for r in results)
    faults = {k[len("fault."):]: v for k, v in stats.items() if k.startswith("fault.")}
    probes = {k[len("probe."):]: v for k, v in stats.items() if k.startswith("probe.")}
    other = {k: v for k, v in stats.items() if not k.startswith(("fault.", "probe."))}
    if not samples:
        samples = [{"note": "no passing sample recorded"}]
    ev = {
        "property_id": prop, "tier": args.tier, "seed": args.seed,
        "level": mod.LEVEL,
        "coverage": {
            "evaluations": total,
            "distinct_nontrivial": len(keys),
            "rule": mod.RULE,
            "samples": samples[:4],
            "exhaustive": False,
            "cases_ok": ok, "cases_discarded": discard,
            "cases_per_hour": int(total / wall * 3600) if wall > 0 else 0,
            "simulator_events": events,
            "simulated_time": "n/a: the code has no timers; logical time = simulator events",
            "distinct_schedule_signatures": len(sigs),
            "faults_fired": faults, "probes": probes, "counters": other,
            "known_findings_hit": {k: v["count"] for k, v in known.items()},
            "budget_cases": ncases, "processes": P, "wall_cap_hit": capped,
            "real_components": ["amr_kitchen (all of it, from /repo working tree)", "numpy/scipy",
                                "cantera", "pickle/dill", "kernel file system (tmpfs scratch)"],
            "stub_components": ["multiprocessing.Pool / pathos ProcessingPool -> SimPool",
                                "write-mode file objects (fault proxies over real files)",
                                "np.empty/np.empty_like (poison)", "time.time (frozen)",
                                "cwd/argv/os.listdir order"],
        },
        "assumptions": getattr(mod, "ASSUMPTIONS", []),
        "wall_s": round(wall, 2),
        "violations": len(confirmed),
    }
    extra = getattr(mod, "evidence_extra", None)
    if extra:
        ev["coverage"].update(extra(stats))
    if not args.no_evidence:
        os.makedirs(EVID_DIR, exist_ok=True)
        with open(os.path.join(EVID_DIR, f"{prop}.json"), "w") as f:
            json.dump(ev, f, indent=1, sort_keys=True)
    print(f"[{prop}] tier={args.tier} seed={args.seed} cases={total}/{ncases} ok={ok} discard={discard} "
          f"nontrivial-distinct={len(keys)} sched-sigs={len(sigs)} wall={wall:.1f}s "
          f"({ev['coverage']['cases_per_hour']}/h)")
    if faults:
        print(f"[{prop}] faults fired: {faults}")
    for kid, k in sorted(known.items()):
        print(f"KNOWN-FINDING: property={prop} {kid}: {k['what']} (hit {k['count']}x, e.g. case {k['case']})")
    rc = 0
    if dead or harness or total == 0:
        for d in dead:
            print(f"HARNESS-ERROR worker died rc={d[0]}:\n{d[1]}")
        for h in harness[:5]:
            print(f"HARNESS-ERROR case {h['case']}: {h['msg']}\n{h.get('tb', '')}")
        rc = 2
    if capped:
        print(f"HARNESS-ERROR wall cap hit before the case budget was exhausted ({total}/{ncases})")
        rc = 2
    elif total < ncases and rc == 0:
        print(f"HARNESS-ERROR only {total} of {ncases} cases ran")
        rc = 2
    for v in confirmed:
        print(f"violation: {json.dumps(v['sig'], sort_keys=True)}\n  {v['msg'][:600]}")
        print(f"VIOLATION property={prop} replay={v['replay']}")
        # the replay file again, inline (gzip + base64, one line): a log that outlives the machine the check
        # ran on is then enough to re-execute the violation elsewhere (tools/replay_from_log.py)
        try:
            import base64
            import gzip
            if rc == 1 and confirmed.index(v) >= 3:
                continue                    # (the first three are enough for a log)
            with open(v["replay"], "rb") as fh:
                print("REPLAY-INLINE " + base64.b64encode(gzip.compress(fh.read())).decode())
        except OSError:
            pass
        rc = 1
    return rc


if __name__ == "__main__":
    sys.exit(main())
