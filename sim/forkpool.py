"""Fork mode of SimPool: real forked worker processes, parked on a pipe and released one
dispatch unit at a time by the simulator, so exactly one process runs at any moment and the
run stays a function of the choice log -- while worker memory is real: a snapshot of the
parent taken when the pool was created, private, and persisting across the units that worker
executes.  pathos' global pool cache (workers survive across ProcessingPool instances until
clear()) is modelled by `PATHOS_CACHE`.
"""
import io
import os
import pickle
import signal
import struct
import sys
import traceback

from . import core
from .core import HarnessError

PATHOS_CACHE = {}      # ctx id -> ForkWorkers shared by SimPathosPool instances of one case


def _send(fd, obj):
    b = pickle.dumps(obj, protocol=pickle.HIGHEST_PROTOCOL)
    os.write(fd, struct.pack("<Q", len(b)))
    mv = memoryview(b)
    while mv:
        n = os.write(fd, mv[:1 << 20])
        mv = mv[n:]


def _recv(fd):
    hdr = b""
    while len(hdr) < 8:
        c = os.read(fd, 8 - len(hdr))
        if not c:
            raise EOFError
        hdr += c
    n = struct.unpack("<Q", hdr)[0]
    chunks = []
    while n:
        c = os.read(fd, min(n, 1 << 20))
        if not c:
            raise EOFError
        chunks.append(c)
        n -= len(c)
    return pickle.loads(b"".join(chunks))


SYNC_FIELDS = ("fault_plan", "fault_sticky", "sticky_paths", "sticky_all", "site_counter",
               "read_fault_paths", "inject", "recording", "poison", "actor")


class ForkWorkers:
    def __init__(self, pool, k):
        self.k = k
        self.procs = []
        ctx = pool.ctx
        for w in range(k):
            p2c_r, p2c_w = os.pipe()
            c2p_r, c2p_w = os.pipe()
            sys.stdout.flush() if hasattr(sys.stdout, "flush") else None
            pid = os.fork()
            if pid == 0:
                # ---- worker process
                try:
                    os.close(p2c_w)
                    os.close(c2p_r)
                    for (_, fr, fw) in self.procs:
                        for fd in (fr, fw):
                            try:
                                os.close(fd)
                            except OSError:
                                pass
                    signal.setitimer(signal.ITIMER_REAL, 0)
                    signal.signal(signal.SIGALRM, signal.SIG_DFL)
                    self._serve(pool, p2c_r, c2p_w)
                finally:
                    os._exit(0)
            os.close(p2c_r)
            os.close(c2p_w)
            self.procs.append((pid, c2p_r, p2c_w))
        ctx.stats["fork.workers_started"] += k

    # ------------------------------------------------------------------ child side
    @staticmethod
    def _serve(pool, rfd, wfd):
        from .pool import _run_payload, _Failure
        ctx = pool.ctx
        core.CUR = ctx
        while True:
            try:
                msg = _recv(rfd)
            except EOFError:
                return
            if msg is None:
                return
            payload, sync, dill_mode = msg
            for k, v in sync.items():
                setattr(ctx, k, v)
            ctx.writes = []
            ctx.reads = []
            ctx.sites = []
            ctx.faults_fired = []
            ctx.events = []
            ctx.steps = 0
            stats0 = dict(ctx.stats)
            out = io.StringIO()
            sys.stdout = out
            sys.stderr = io.StringIO()
            pool._dill = dill_mode
            harness = None
            try:
                res = _run_payload(pool, payload)
            except BaseException as e:       # HarnessError / ReplayMismatch inside a worker
                res = None
                harness = f"{type(e).__name__}: {e}\n{traceback.format_exc()}"
            delta = {k: v - stats0.get(k, 0) for k, v in ctx.stats.items() if v != stats0.get(k, 0)}
            back = {"res": res, "harness": harness, "writes": ctx.writes, "reads": ctx.reads,
                    "sites": ctx.sites, "faults_fired": ctx.faults_fired, "events": ctx.events,
                    "stats": delta, "stdout": out.getvalue(),
                    "sync": {k: getattr(ctx, k) for k in ("site_counter", "sticky_paths", "sticky_all")}}
            try:
                _send(wfd, back)
            except BaseException as e:
                back["res"] = _Failure(RuntimeError(f"result not transferable: {e}"))
                try:
                    _send(wfd, back)
                except BaseException:
                    return

    # ------------------------------------------------------------------ parent side
    def execute(self, w, payload, pool):
        ctx = pool.ctx
        pid, rfd, wfd = self.procs[w % self.k]
        sync = {k: getattr(ctx, k) for k in SYNC_FIELDS}
        try:
            _send(wfd, (payload, sync, pool._dill))
            back = _recv(rfd)
        except (EOFError, OSError) as e:
            raise HarnessError(f"forked worker {w} died: {e}")
        if back["harness"]:
            raise HarnessError("inside forked worker: " + back["harness"])
        ctx.writes.extend(back["writes"])
        ctx.reads.extend(back["reads"])
        ctx.sites.extend(back["sites"])
        ctx.faults_fired.extend(back["faults_fired"])
        for e in back["events"]:
            ctx.events.append(e)
        for k, v in back["stats"].items():
            ctx.stats[k] += v
        for k, v in back["sync"].items():
            setattr(ctx, k, v)
        if back["stdout"]:
            try:
                sys.stdout.write(back["stdout"])
            except Exception:
                pass
        ctx.stats["fork.units"] += 1
        return back["res"]

    def stop(self):
        for pid, rfd, wfd in self.procs:
            try:
                _send(wfd, None)
            except OSError:
                pass
            for fd in (rfd, wfd):
                try:
                    os.close(fd)
                except OSError:
                    pass
            try:
                os.waitpid(pid, 0)
            except ChildProcessError:
                pass
        self.procs = []


def pathos_workers(pool):
    """Workers of the (modelled) global pathos cache for this case; created on first use."""
    ctx = pool.ctx
    fw = PATHOS_CACHE.get(id(ctx))
    if fw is None or not fw.procs:
        fw = ForkWorkers(pool, min(pool.W, 3))
        fw.W = pool.W
        PATHOS_CACHE[id(ctx)] = fw
        ctx.stats["fork.pathos_cache_miss"] += 1
    else:
        ctx.stats["fork.pathos_cache_hit"] += 1
        ctx.probe("pathos_cached_workers_reused")
    return fw


def pathos_clear(ctx):
    fw = PATHOS_CACHE.pop(id(ctx), None)
    if fw is not None:
        fw.stop()
