"""Independent reader and strict validator for AMReX plotfiles.

Written from the format definition only; imports nothing from amr_kitchen.  It is the
oracle's eye on every tool output and the judge of "is this tree effectively damaged
in a listed class" for C04/C20.
"""
import os
import re
import numpy as np


class FormatError(Exception):
    pass


_TUP = re.compile(r"\(\s*(-?\d+(?:\s*,\s*-?\d+)*)\s*\)")


def _ints(s):
    return tuple(int(v) for v in s.split(","))


def parse_box_line(line):
    """'((0,0,0) (7,7,7) (0,0,0))' -> (lo, hi)"""
    tups = _TUP.findall(line)
    if len(tups) != 3:
        raise FormatError(f"bad box line {line!r}")
    lo, hi, typ = (_ints(t) for t in tups)
    if not (len(lo) == len(hi) == len(typ)):
        raise FormatError(f"bad box line {line!r}")
    return lo, hi


def parse_fab_header_line(raw):
    """The documented convention: the last four blank-separated tokens of the header
    line are lo, hi, type and the component count.  Returns (lo, hi, ncomp)."""
    try:
        h = raw.decode("ascii")
    except UnicodeDecodeError as e:
        raise FormatError("non-ascii FAB header") from e
    if not h.endswith("\n"):
        raise FormatError("FAB header line not terminated")
    toks = h.split()
    if len(toks) < 4:
        raise FormatError("short FAB header")
    a, b, c, n = toks[-4:]
    try:
        ncomp = int(n)
        lo = _ints(a.split("(")[-1].replace(")", ""))
        hi = _ints(b.replace("(", "").replace(")", ""))
    except ValueError as e:
        raise FormatError(f"unparsable FAB header {h!r}") from e
    if len(lo) != len(hi):
        raise FormatError("FAB header dims differ")
    return lo, hi, ncomp


class Parsed:
    pass


def parse_header(path):
    p = Parsed()
    with open(os.path.join(path, "Header")) as f:
        lines = f.read().split("\n")
    it = iter(lines)

    def nxt():
        try:
            return next(it)
        except StopIteration:
            raise FormatError("Header ends early")
    p.version = nxt()
    nf = int(nxt())
    p.fields = [nxt() for _ in range(nf)]
    p.ndims = int(nxt())
    p.time = float(nxt())
    p.finest = int(nxt())
    p.geo_low = [float(v) for v in nxt().split()]
    p.geo_high = [float(v) for v in nxt().split()]
    p.ratios = [int(v) for v in nxt().split()]
    doms = _TUP.findall(nxt())
    if len(doms) < 3 * (p.finest + 1):
        raise FormatError("too few domain boxes")
    p.grid_sizes = []
    for lv in range(p.finest + 1):
        lo, hi = _ints(doms[3 * lv]), _ints(doms[3 * lv + 1])
        p.grid_sizes.append(tuple(h - l + 1 for l, h in zip(lo, hi)))
    p.steps = [int(v) for v in nxt().split()]
    p.dx = [[float(v) for v in nxt().split()] for _ in range(p.finest + 1)]
    p.coord = nxt()
    p.bwidth = nxt()
    p.boxes_phys = []
    p.level_time = []
    p.cell_paths = []
    for lv in range(p.finest + 1):
        a = nxt().split()
        if int(a[0]) != lv:
            raise FormatError(f"level block {lv} announces {a[0]}")
        nb = int(a[1])
        p.level_time.append(float(a[2]))
        nxt()
        boxes = []
        for _ in range(nb):
            box = []
            for d in range(p.ndims):
                lo, hi = (float(v) for v in nxt().split())
                box.append((lo, hi))
            boxes.append(box)
        p.boxes_phys.append(boxes)
        p.cell_paths.append(nxt().strip())
    return p


def parse_cell_h(path, nfields_expected=None):
    c = Parsed()
    with open(path) as f:
        lines = f.read().split("\n")
    it = iter(lines)

    def nxt():
        try:
            return next(it)
        except StopIteration:
            raise FormatError(f"{path} ends early")
    c.v1 = nxt()
    c.v2 = nxt()
    c.nfields = int(nxt())
    c.nghost = int(nxt())
    m = re.match(r"\((\d+)\s+(\d+)\s*$", nxt())
    if not m:
        raise FormatError("bad box-array opener")
    nb = int(m.group(1))
    c.indexes = [parse_box_line(nxt()) for _ in range(nb)]
    if nxt().strip() != ")":
        raise FormatError("missing box-array closer")
    nb2 = int(nxt())
    if nb2 != nb:
        raise FormatError("FabOnDisk count differs")
    c.files = []
    c.offsets = []
    for _ in range(nb):
        t = nxt().split()
        if len(t) != 3 or t[0] != "FabOnDisk:":
            raise FormatError(f"bad FabOnDisk line {t}")
        c.files.append(t[1])
        c.offsets.append(int(t[2]))
    c.mins = c.maxs = None
    try:
        blank = nxt()
        a = nxt().split(",")
        nbm, nfm = int(a[0]), int(a[1])
        mins = [np.array(nxt().split(",")[:-1], dtype=float) for _ in range(nbm)]
        nxt()
        a = nxt().split(",")
        nbM, nfM = int(a[0]), int(a[1])
        maxs = [np.array(nxt().split(",")[:-1], dtype=float) for _ in range(nbM)]
        c.mins, c.maxs = mins, maxs
        c.mm_counts = (nbm, nfm, nbM, nfM)
    except (FormatError, ValueError, IndexError):
        c.mins = c.maxs = None
    return c


def read_fab_at(fpath, offset, ndims):
    """Read the FAB whose header line starts at `offset`; returns (lo, hi, ncomp, array)."""
    with open(fpath, "rb") as f:
        f.seek(offset)
        line = f.readline()
        lo, hi, nc = parse_fab_header_line(line)
        if len(lo) != ndims:
            raise FormatError("FAB dims")
        shape = tuple(h - l + 1 for l, h in zip(lo, hi))
        n = int(np.prod(shape)) * nc
        raw = f.read(8 * n)
        if len(raw) != 8 * n:
            raise FormatError("short FAB payload")
    arr = np.frombuffer(raw, dtype="<f8").reshape(shape + (nc,), order="F")
    return lo, hi, nc, arr


def scan_fabs(fpath):
    """Scan a binary from byte 0: list of dicts(offset, hlen, lo, hi, ncomp, nbytes) and
    the number of trailing bytes that do not form a complete FAB (0 if it tiles)."""
    out = []
    size = os.path.getsize(fpath)
    with open(fpath, "rb") as f:
        pos = 0
        while pos < size:
            f.seek(pos)
            line = f.readline()
            try:
                lo, hi, nc = parse_fab_header_line(line)
            except FormatError:
                return out, size - pos
            if not line.startswith(b"FAB "):
                return out, size - pos
            shape = tuple(h - l + 1 for l, h in zip(lo, hi))
            if any(s <= 0 for s in shape) or nc < 0:
                return out, size - pos
            nbytes = 8 * int(np.prod(shape)) * nc
            if pos + len(line) + nbytes > size:
                return out, size - pos
            out.append({"offset": pos, "hlen": len(line), "lo": lo, "hi": hi,
                        "ncomp": nc, "nbytes": nbytes})
            pos += len(line) + nbytes
    return out, 0


class PlotOnDisk:
    """Full independent parse of a plotfile directory (raises FormatError/OSError/ValueError
    on anything it cannot read)."""

    def __init__(self, path, read_data=True, limit=None):
        self.path = path
        h = parse_header(path)
        self.h = h
        self.fields = h.fields
        self.ndims = h.ndims
        self.time = h.time
        self.nlev = h.finest + 1 if limit is None else limit + 1
        self.geo_low, self.geo_high = h.geo_low, h.geo_high
        self.dx = h.dx
        self.grid_sizes = h.grid_sizes
        self.boxes_phys = h.boxes_phys
        self.cells = []
        self.data = []
        for lv in range(self.nlev):
            cdir = os.path.dirname(h.cell_paths[lv])
            c = parse_cell_h(os.path.join(path, cdir, "Cell_H"))
            c.dir = os.path.join(path, cdir)
            self.cells.append(c)
            if read_data:
                lvd = []
                for b in range(len(c.indexes)):
                    lo, hi, nc, arr = read_fab_at(os.path.join(c.dir, c.files[b]),
                                                  c.offsets[b], self.ndims)
                    lvd.append((lo, hi, nc, arr))
                self.data.append(lvd)

    def strict_problems(self, check_coords=True):
        """List of human-readable problems; empty means the tree is a well-formed plotfile
        by the strict reading of the format (used on tool outputs)."""
        probs = []
        h = self.h
        nf = len(self.fields)
        if len(self.geo_low) != self.ndims or len(self.geo_high) != self.ndims:
            probs.append("geometry dims")
        for lv in range(self.nlev):
            c = self.cells[lv]
            if c.nfields != nf:
                probs.append(f"L{lv}: Cell_H nfields {c.nfields} != {nf}")
            if len(c.indexes) != len(h.boxes_phys[lv]):
                probs.append(f"L{lv}: {len(c.indexes)} index entries, {len(h.boxes_phys[lv])} boxes")
            for f in sorted(set(c.files)):
                fp = os.path.join(c.dir, f)
                if not os.path.isfile(fp):
                    probs.append(f"L{lv}: missing {f}")
                    continue
                fabs, rest = scan_fabs(fp)
                if rest:
                    probs.append(f"L{lv}: {f} has {rest} trailing bytes that are no FAB")
                recorded = sorted(c.offsets[b] for b in range(len(c.files)) if c.files[b] == f)
                if recorded != [x["offset"] for x in fabs]:
                    probs.append(f"L{lv}: {f} FAB offsets {[x['offset'] for x in fabs]} vs recorded {recorded}")
            for b in range(len(c.indexes)):
                fp = os.path.join(c.dir, c.files[b])
                try:
                    lo, hi, nc, arr = read_fab_at(fp, c.offsets[b], self.ndims)
                except (FormatError, OSError, ValueError) as e:
                    probs.append(f"L{lv} box {b}: unreadable FAB: {e}")
                    continue
                if (lo, hi) != c.indexes[b]:
                    probs.append(f"L{lv} box {b}: FAB range {lo}-{hi} vs Cell_H {c.indexes[b]}")
                if nc != nf:
                    probs.append(f"L{lv} box {b}: FAB ncomp {nc} vs {nf}")
            if c.mins is None:
                probs.append(f"L{lv}: min/max tables unreadable")
            else:
                if c.mm_counts != (len(c.indexes), nf, len(c.indexes), nf):
                    probs.append(f"L{lv}: min/max table counts {c.mm_counts}")
                for t in (c.mins, c.maxs):
                    for row in t:
                        if len(row) != nf:
                            probs.append(f"L{lv}: min/max row width {len(row)}")
                            break
            if check_coords and len(c.indexes) == len(h.boxes_phys[lv]):
                for b, (lo, hi) in enumerate(c.indexes):
                    for d in range(self.ndims):
                        elo = self.geo_low[d] + lo[d] * self.dx[lv][d]
                        ehi = self.geo_low[d] + (hi[d] + 1) * self.dx[lv][d]
                        plo, phi = h.boxes_phys[lv][b][d]
                        tol = 1e-9 * max(1.0, abs(elo), abs(ehi)) + 1e-6 * self.dx[lv][d]
                        if abs(plo - elo) > tol or abs(phi - ehi) > tol:
                            probs.append(f"L{lv} box {b} dim {d}: bounds {plo},{phi} vs {elo},{ehi}")
        return probs


def rows_equal(a, b):
    """NaN-aware equality of parsed min/max rows."""
    a = np.asarray(a, dtype=float)
    b = np.asarray(b, dtype=float)
    if a.shape != b.shape:
        return False
    return bool(np.all((a == b) | (np.isnan(a) & np.isnan(b))))
