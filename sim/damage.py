"""Storage-fault operators: what purged scratch file systems, interrupted copies and crashed
writers leave behind, applied at the byte level to a materialised plotfile tree.

`sites(model, disk)` lists every applicable (operator, site) for a world; `apply(path, site)`
performs one.  Whether the resulting tree REALLY is inconsistent in a class that C04 lists is
decided afterwards by `effective_damage` (an independent lenient re-parse), never by the
operator's intention: pairs can cancel, a no-op truncation is no damage.
"""
import os
import re

import numpy as np

from .reader import parse_fab_header_line, FormatError


# ----------------------------------------------------------------------------- helpers

def _lines(p):
    with open(p) as f:
        return f.read().split("\n")


def _write_lines(p, lines):
    with open(p, "w") as f:
        f.write("\n".join(lines))


def cell_h_layout(lines):
    """Line numbers of the structural parts of a Cell_H as the generator writes it."""
    n = int(lines[4].split()[0].replace("(", ""))
    idx0 = 5
    close = idx0 + n
    count2 = close + 1
    fab0 = count2 + 1
    return {"n": n, "count1": 4, "idx0": idx0, "close": close, "count2": count2, "fab0": fab0,
            "mins_hdr": fab0 + n + 1}


# ----------------------------------------------------------------------------- site listing

def sites(m, limit=None, accept_biased=False, coords=False):
    """Enumerate (op, args) for every applicable site of world m.  Sites per file use the
    first / middle / last FAB of that file."""
    out = []
    nlev = m.nlev if limit is None else limit + 1
    for lv in range(m.nlev):
        fo = m.file_order(lv)
        nb = len(m.boxes[lv])
        for f, bids in sorted(fo.items()):
            ks = sorted({0, len(bids) // 2, len(bids) - 1})
            out.append(("bin.delete", (lv, f)))
            out.append(("bin.truncate0", (lv, f)))
            out.append(("bin.truncate_in_header", (lv, f, ks[0])))
            for k in ks:
                out.append(("bin.truncate_in_payload", (lv, f, k)))
                out.append(("bin.truncate_at_fab_end", (lv, f, k)))
                out.append(("bin.insert_in_payload", (lv, f, k)))
                out.append(("bin.insert_at_fab_start", (lv, f, k)))
                out.append(("bin.remove_from_payload", (lv, f, k)))
                out.append(("bin.fab_hi_plus1", (lv, f, k)))
                out.append(("bin.fab_hi_plus1_resized", (lv, f, k)))
                out.append(("bin.fab_ncomp_plus1", (lv, f, k)))
                out.append(("bin.fab_ncomp_plus1_resized", (lv, f, k)))
                out.append(("bin.fab_lo_shift", (lv, f, k)))
                if accept_biased:
                    out.append(("cos.fab_prefix", (lv, f, k)))
            out.append(("bin.append_zeros", (lv, f)))
            out.append(("bin.append_bytes", (lv, f, 1 + (lv + len(bids)) % 7)))       # 1..7 stray bytes
            out.append(("bin.truncate_tail", (lv, f, 1 + (lv + 3 * len(bids)) % 7)))  # 1..7 bytes short
            out.append(("bin.remove_odd", (lv, f, ks[0])))
            out.append(("bin.append_dup_fab", (lv, f)))
        bs = sorted({0, nb // 2, nb - 1})
        for b in bs:
            out.append(("lh.delete_index_line", (lv, b)))
            out.append(("lh.dup_index_line", (lv, b)))
            out.append(("lh.garble_index_line", (lv, b)))
            out.append(("lh.index_hi_plus1", (lv, b)))
            out.append(("lh.index_shift", (lv, b)))
            out.append(("lh.delete_fab_line", (lv, b)))
            out.append(("lh.dup_fab_line", (lv, b)))
            out.append(("lh.garble_fab_line", (lv, b)))
            out.append(("lh.fab_missing_file", (lv, b)))
            out.append(("lh.fab_other_file", (lv, b)))
            for d in (1, -1, 5, 8, 64):
                out.append(("lh.fab_offset_delta", (lv, b, d)))
            out.append(("lh.fab_offset_past_eof", (lv, b)))
            out.append(("lh.fab_offset_negative", (lv, b)))
            out.append(("lh.fab_offset_into_payload", (lv, b)))
            out.append(("lh.drop_box_consistently", (lv, b)))
            if nb >= 2:
                out.append(("lh.swap_fab_lines", (lv, b)))
                out.append(("lh.fab_line_of_next_box", (lv, b)))
            if accept_biased:
                out.append(("cos.offset_plus_sign", (lv, b)))
                out.append(("cos.offset_zero_padded", (lv, b)))
                out.append(("cos.fab_line_spaces", (lv, b)))
                out.append(("cos.index_line_spaces", (lv, b)))
                out.append(("cos.minmax_garbage", (lv, b)))
                out.append(("cos.fab_keyword", (lv, b)))
                if nb >= 2:
                    out.append(("cos.swap_boxes_consistently", (lv, b)))
        out.append(("lh.count1_plus1", (lv,)))
        out.append(("lh.count1_minus1", (lv,)))
        out.append(("lh.count2_plus1", (lv,)))
        out.append(("lh.truncate_file", (lv,)))
        out.append(("lh.delete_file", (lv,)))
        if coords:
            for b in bs:
                out.append(("gh.box_bounds_shift_cell", (lv, b)))
                out.append(("gh.box_hi_plus_cell", (lv, b)))
                d = (lv + b) % m.ndims          # the other bound lines too, not only the first direction
                out.append(("gh.box_bounds_shift_cell", (lv, b, d)))
                out.append(("gh.box_lo_quarter_cell", (lv, b, d)))
                out.append(("gh.box_lo_nan", (lv, b, d)))
                out.append(("gh.box_hi_nan", (lv, b, (d + 1) % m.ndims)))
                out.append(("gh.box_hi_inf", (lv, b, d)))
    return out


# ----------------------------------------------------------------------------- application

def _fab_positions(fp):
    """[(offset, hlen, nbytes, lo, hi, nc)] by scanning the pristine file."""
    out = []
    size = os.path.getsize(fp)
    with open(fp, "rb") as f:
        pos = 0
        while pos < size:
            f.seek(pos)
            line = f.readline()
            lo, hi, nc = parse_fab_header_line(line)
            nb = 8 * nc * int(np.prod([h - l + 1 for l, h in zip(lo, hi)]))
            out.append((pos, len(line), nb, lo, hi, nc))
            pos += len(line) + nb
    return out


def _rewrite_fab_header(fp, k, new_lo=None, new_hi=None, new_nc=None, resize=False):
    fabs = _fab_positions(fp)
    pos, hl, nb, lo, hi, nc = fabs[k]
    with open(fp, "rb") as f:
        data = f.read()
    lo2 = new_lo if new_lo is not None else lo
    hi2 = new_hi if new_hi is not None else hi
    nc2 = new_nc if new_nc is not None else nc
    old = data[pos:pos + hl].decode("ascii")
    prefix = old[:old.rindex("((")]
    nd = len(lo)
    hdr = (prefix + "((" + ",".join(map(str, lo2)) + ") (" + ",".join(map(str, hi2)) + ") (" +
           ",".join(["0"] * nd) + ")) " + str(nc2) + "\n").encode("ascii")
    payload = data[pos + hl:pos + hl + nb]
    if resize:
        nb2 = 8 * nc2 * int(np.prod([h - l + 1 for l, h in zip(lo2, hi2)]))
        payload = (payload + b"\x00" * nb2)[:nb2]
    with open(fp, "wb") as f:
        f.write(data[:pos] + hdr + payload + data[pos + hl + nb:])


def apply(path, m, op, args):
    """Apply one operator to the tree at `path` (materialised from model m, possibly already
    damaged by an earlier operator: every step tolerates that and may become a no-op).
    Returns a short description or None if it could not be applied."""
    lv = args[0]
    ldir = os.path.join(path, f"Level_{lv}")
    chp = os.path.join(ldir, "Cell_H")
    try:
        if op.startswith("bin.") or op == "cos.fab_prefix":
            f = args[1]
            fp = os.path.join(ldir, f)
            if not os.path.exists(fp):
                return None
            size = os.path.getsize(fp)
            if op == "bin.delete":
                os.remove(fp)
                return f"delete L{lv}/{f}"
            if op == "bin.truncate0":
                os.truncate(fp, 0)
                return f"truncate L{lv}/{f} to 0"
            if op == "bin.append_bytes":
                with open(fp, "ab") as fh:
                    fh.write(b"\n" * args[2])
                return f"append {args[2]} byte(s) to L{lv}/{f}"
            if op == "bin.truncate_tail":
                os.truncate(fp, max(0, size - args[2]))
                return f"cut {args[2]} byte(s) off the end of L{lv}/{f}"
            if op == "bin.append_zeros":
                with open(fp, "ab") as fh:
                    fh.write(b"\x00" * 16)
                return f"append 16 bytes to L{lv}/{f}"
            fabs = _fab_positions(fp)
            if op == "bin.append_dup_fab":
                pos, hl, nb = fabs[-1][:3]
                with open(fp, "rb") as fh:
                    data = fh.read()
                with open(fp, "ab") as fh:
                    fh.write(data[pos:pos + hl + nb])
                return f"append a duplicate of the last FAB to L{lv}/{f}"
            k = min(args[2], len(fabs) - 1)
            pos, hl, nb, lo, hi, nc = fabs[k]
            if op == "bin.truncate_in_header":
                os.truncate(fp, pos + hl // 2)
                return f"truncate L{lv}/{f} inside header of FAB {k}"
            if op == "bin.truncate_in_payload":
                os.truncate(fp, pos + hl + max(8, (nb // 16) * 8))
                return f"truncate L{lv}/{f} inside payload of FAB {k}"
            if op == "bin.truncate_at_fab_end":
                os.truncate(fp, pos + hl + nb)
                return f"truncate L{lv}/{f} at end of FAB {k} (of {len(fabs)})"
            with open(fp, "rb") as fh:
                data = fh.read()
            if op == "bin.insert_in_payload":
                p = pos + hl + (nb // 16) * 8
                data = data[:p] + b"\x11" * 8 + data[p:]
            elif op == "bin.insert_at_fab_start":
                data = data[:pos] + b"XXXXX" + data[pos:]
            elif op == "bin.remove_odd":
                p = pos + hl + (nb // 16) * 8
                data = data[:p] + data[p + 3:]
            elif op == "bin.remove_from_payload":
                p = pos + hl + (nb // 16) * 8
                data = data[:p] + data[p + 8:]
            elif op == "bin.fab_hi_plus1":
                hi2 = (hi[0] + 1,) + tuple(hi[1:])
                _rewrite_fab_header(fp, k, new_hi=hi2)
                return f"FAB {k} of L{lv}/{f}: hi {hi}->{hi2}, payload unchanged"
            elif op == "bin.fab_hi_plus1_resized":
                hi2 = (hi[0] + 1,) + tuple(hi[1:])
                _rewrite_fab_header(fp, k, new_hi=hi2, resize=True)
                return f"FAB {k} of L{lv}/{f}: hi {hi}->{hi2}, payload resized"
            elif op == "bin.fab_ncomp_plus1":
                _rewrite_fab_header(fp, k, new_nc=nc + 1)
                return f"FAB {k} of L{lv}/{f}: ncomp {nc}->{nc + 1}, payload unchanged"
            elif op == "bin.fab_ncomp_plus1_resized":
                _rewrite_fab_header(fp, k, new_nc=nc + 1, resize=True)
                return f"FAB {k} of L{lv}/{f}: ncomp {nc}->{nc + 1}, payload resized"
            elif op == "bin.fab_lo_shift":
                lo2 = (lo[0] + 2,) + tuple(lo[1:])
                hi2 = (hi[0] + 2,) + tuple(hi[1:])
                _rewrite_fab_header(fp, k, new_lo=lo2, new_hi=hi2)
                return f"FAB {k} of L{lv}/{f}: index range shifted by 2 cells (same shape)"
            elif op == "cos.fab_prefix":
                # another (equally long) descriptor prefix on this FAB
                old = data[pos:pos + hl]
                new = old.replace(b"FAB ((8, (64 11 52 0 1 12 0 1023))", b"FAB ((8, (64 11 52 0 1 12 0 1022))")
                data = data[:pos] + new + data[pos + hl:]
                with open(fp, "wb") as fh:
                    fh.write(data)
                return f"FAB {k} of L{lv}/{f}: descriptor prefix edited (same length)"
            with open(fp, "wb") as fh:
                fh.write(data)
            return f"{op} FAB {k} of L{lv}/{f}"
        if op.startswith("gh."):
            b = args[1]
            hp = os.path.join(path, "Header")
            lines = _lines(hp)
            # locate the level block: line "lv nboxes time"
            nf = int(lines[1])
            i = 2 + nf + 1 + 1 + 1 + 2 + 1 + 1 + 1 + m.nlev + 2
            for l in range(lv):
                nb = int(lines[i].split()[1])
                i += 2 + nb * m.ndims + 1
            nb = int(lines[i].split()[1])
            if b >= nb:
                return None
            d = args[2] if len(args) > 2 else 0
            j = i + 2 + b * m.ndims + d
            lo, hi = (float(v) for v in lines[j].split())
            dx = m.dx[lv][d]
            if op == "gh.box_bounds_shift_cell":
                lines[j] = f"{lo + dx!r} {hi + dx!r}"
            elif op == "gh.box_lo_quarter_cell":
                lines[j] = f"{lo + 0.25 * dx!r} {hi!r}"
            elif op == "gh.box_lo_nan":
                lines[j] = f"nan {hi!r}"
            elif op == "gh.box_hi_nan":
                lines[j] = f"{lo!r} nan"
            elif op == "gh.box_hi_inf":
                lines[j] = f"{lo!r} inf"
            else:
                lines[j] = f"{lo!r} {hi + dx!r}"
            _write_lines(hp, lines)
            return f"{op} L{lv} box {b} direction {d}"
        # ---- level header operators
        if not os.path.exists(chp):
            return None
        if op == "lh.delete_file":
            os.remove(chp)
            return f"delete L{lv}/Cell_H"
        lines = _lines(chp)
        if op == "lh.truncate_file":
            with open(chp, "rb") as fh:
                data = fh.read()
            with open(chp, "wb") as fh:
                fh.write(data[:len(data) // 3])
            return f"truncate L{lv}/Cell_H to a third"
        try:
            L = cell_h_layout(lines)
        except (ValueError, IndexError):
            return None
        n = L["n"]
        if op == "lh.count1_plus1":
            lines[4] = f"({n + 1} 0"
        elif op == "lh.count1_minus1":
            lines[4] = f"({n - 1} 0"
        elif op == "lh.count2_plus1":
            lines[L["count2"]] = str(n + 1)
        else:
            b = args[1]
            if b >= n:
                return None
            il = L["idx0"] + b
            fl = L["fab0"] + b
            if fl >= len(lines):
                return None
            if op == "lh.delete_index_line":
                del lines[il]
            elif op == "lh.dup_index_line":
                lines.insert(il, lines[il])
            elif op == "lh.garble_index_line":
                lines[il] = lines[il].replace(",", ";", 1)
            elif op in ("lh.index_hi_plus1", "lh.index_shift"):
                toks = lines[il].split()
                lo = [int(v) for v in toks[0].replace("(", "").replace(")", "").split(",")]
                hi = [int(v) for v in toks[1].replace("(", "").replace(")", "").split(",")]
                if op == "lh.index_hi_plus1":
                    hi[0] += 1
                else:
                    lo[-1] += 2
                    hi[-1] += 2
                lines[il] = ("((" + ",".join(map(str, lo)) + ") (" + ",".join(map(str, hi)) + ") " + toks[2])
            elif op == "lh.delete_fab_line":
                del lines[fl]
            elif op == "lh.dup_fab_line":
                lines.insert(fl, lines[fl])
            elif op == "lh.garble_fab_line":
                t = lines[fl].split()
                lines[fl] = f"{t[0]} {t[1]} 12x{t[2]}"
            elif op == "lh.swap_fab_lines":
                o = L["fab0"] + (b + 1) % n
                lines[fl], lines[o] = lines[o], lines[fl]
            elif op == "lh.fab_line_of_next_box":
                # this box alone records the file and position of the next box's FAB (a duplicate entry)
                o = L["fab0"] + (b + 1) % n
                if lines[o] == lines[fl]:
                    return None
                lines[fl] = lines[o]
            elif op == "cos.fab_keyword":
                t = lines[fl].split()
                lines[fl] = f"FabOnDisk {t[1]} {t[2]}"
            else:
                t = lines[fl].split()
                if len(t) != 3:
                    return None
                fname, off = t[1], int(t[2]) if re.fullmatch(r"[-+]?\d+", t[2]) else None
                if off is None:
                    return None
                fp = os.path.join(ldir, fname)
                if op == "lh.fab_missing_file":
                    lines[fl] = f"{t[0]} Cell_D_09999 {off}"
                elif op == "lh.fab_other_file":
                    others = sorted({x for x, _ in m.layout[lv]} - {fname})
                    if not others:
                        return None
                    lines[fl] = f"{t[0]} {others[0]} {off}"
                elif op == "lh.fab_offset_delta":
                    lines[fl] = f"{t[0]} {fname} {off + args[2]}"
                elif op == "lh.fab_offset_past_eof":
                    sz = os.path.getsize(fp) if os.path.exists(fp) else 10 ** 6
                    lines[fl] = f"{t[0]} {fname} {sz + 100}"
                elif op == "lh.fab_offset_negative":
                    lines[fl] = f"{t[0]} {fname} {-5 - off}"
                elif op == "lh.fab_offset_into_payload":
                    lines[fl] = f"{t[0]} {fname} {off + 200}"
                elif op == "cos.offset_plus_sign":
                    lines[fl] = f"{t[0]} {fname} +{off}"
                elif op == "cos.offset_zero_padded":
                    lines[fl] = f"{t[0]} {fname} 00{off}"
                elif op == "cos.fab_line_spaces":
                    lines[fl] = f"{t[0]}   {fname}\t{off}  "
                elif op == "cos.index_line_spaces":
                    toks = lines[il].split()
                    lines[il] = "  " + toks[0] + "   " + toks[1] + " " + toks[2] + " "
                elif op == "cos.minmax_garbage":
                    r = L["mins_hdr"] + 1 + b
                    if r < len(lines):
                        lines[r] = ",".join(["1.0"] * max(1, lines[r].count(","))) + ","
                elif op == "lh.drop_box_consistently":
                    if n < 2:
                        return None
                    del lines[fl]
                    del lines[il]
                    lines[4] = f"({n - 1} 0"
                    lines[L["count2"] - 1] = str(n - 1)
                elif op == "cos.swap_boxes_consistently":
                    o = (b + 1) % n
                    lines[il], lines[L["idx0"] + o] = lines[L["idx0"] + o], lines[il]
                    lines[fl], lines[L["fab0"] + o] = lines[L["fab0"] + o], lines[fl]
                else:
                    return None
        _write_lines(chp, lines)
        return f"{op} L{lv} {args[1:]}"
    except (FormatError, ValueError, IndexError, OSError) as e:
        return None


# ----------------------------------------------------------------------------- judge

def _idx_tokens(tok):
    return tuple(int(v) for v in tok.replace("(", "").replace(")", "").split(","))


def lenient_level_header(chp):
    """Parse a level header by the loosest reading of its structure.  Returns
    (nfields, [(lo,hi)], [(file, offset)]) or raises FormatError."""
    try:
        with open(chp) as f:
            lines = f.read().split("\n")
        nfields = int(lines[2])
        n = int(lines[4].split()[0].replace("(", ""))
        idx = []
        for k in range(n):
            t = lines[5 + k].split()
            if len(t) != 3:
                raise FormatError("index line")
            idx.append((_idx_tokens(t[0]), _idx_tokens(t[1])))
        n2 = int(lines[5 + n + 1])
        if n2 != n:
            raise FormatError("entry counts differ")
        fabs = []
        for k in range(n):
            t = lines[5 + n + 2 + k].split()
            if len(t) != 3:
                raise FormatError("FabOnDisk line")
            fabs.append((t[1], int(t[2])))
        return nfields, idx, fabs
    except (ValueError, IndexError, OSError, UnicodeDecodeError) as e:
        raise FormatError(f"level header unreadable: {e}")


def scan_lenient(fp):
    """Line-based scan from byte 0.  Returns (fabs, tiles_exactly)."""
    out = []
    size = os.path.getsize(fp)
    pos = 0
    with open(fp, "rb") as f:
        while pos < size:
            f.seek(pos)
            line = f.readline()
            try:
                lo, hi, nc = parse_fab_header_line(line)
            except FormatError:
                return out, False
            if not line.startswith(b"FAB "):
                # a FAB starts with the FAB keyword: bytes inserted before it, or a header
                # whose start was eaten by a short payload, are a layout disagreement
                return out, False
            shape = [h - l + 1 for l, h in zip(lo, hi)]
            if any(s <= 0 for s in shape) or nc <= 0:
                return out, False
            nb = 8 * nc * int(np.prod(shape))
            if pos + len(line) + nb > size:
                return out, False
            out.append((pos, len(line), nb, lo, hi, nc))
            pos += len(line) + nb
    return out, True


def scan_by_search(fp):
    """Every FAB header line of the file found by SEARCHING for the FAB keyword (not by walking from
    byte 0, which stops at the first disagreement).  Returns (fabs sorted by position, file size)."""
    with open(fp, "rb") as f:
        data = f.read()
    out = []
    at = data.find(b"FAB ")
    while at >= 0:
        end = data.find(b"\n", at, at + 400)
        if end >= 0:
            line = data[at:end + 1]
            try:
                lo, hi, nc = parse_fab_header_line(line)
                shape = [h - l + 1 for l, h in zip(lo, hi)]
                if all(s > 0 for s in shape) and nc > 0:
                    out.append((at, len(line), 8 * nc * int(np.prod(shape)), lo, hi, nc))
            except FormatError:
                pass
        at = data.find(b"FAB ", at + 4)
    return out, len(data)


def effective_damage(path, header_nboxes, nfields, ndims, limit):
    """Independent judgement: list of (class, detail) for inconsistencies, within levels
    0..limit, that belong to a class C04 lists.  Empty list = nothing C04 obliges taste to
    reject (the tree may still be cosmetically edited)."""
    found = []
    for lv in range(limit + 1):
        ldir = os.path.join(path, f"Level_{lv}")
        chp = os.path.join(ldir, "Cell_H")
        try:
            nf, idx, fabs = lenient_level_header(chp)
        except FormatError as e:
            found.append(("level-header-entry-missing-or-unparsable", f"L{lv}: {e}"))
            continue
        if len(idx) != header_nboxes[lv]:
            found.append(("level-header-lacks-box-entry", f"L{lv}: {len(idx)} entries, Header lists {header_nboxes[lv]} boxes"))
        byfile = {}
        for b, (fname, off) in enumerate(fabs):
            byfile.setdefault(fname, []).append((off, b))
        for fname, lst in sorted(byfile.items()):
            fp = os.path.join(ldir, fname)
            if not os.path.isfile(fp):
                found.append(("binary-missing", f"L{lv}: {fname}"))
                continue
            scanned, tiles = scan_lenient(fp)
            lst.sort()
            if not tiles:
                found.append(("binary-layout", f"L{lv}: {fname} is not tiled by FABs up to its end"))
            elif len(scanned) != len(lst):
                found.append(("binary-layout", f"L{lv}: {fname} holds {len(scanned)} FABs, level header records {len(lst)}"))
            else:
                for (pos, hl, nb, lo, hi, nc), (off, b) in zip(scanned, lst):
                    if (lo, hi) != idx[b]:
                        found.append(("index-range-differs", f"L{lv} box {b}: FAB {lo}-{hi} vs level header {idx[b]}"))
                    if nc != nfields:
                        found.append(("binary-layout", f"L{lv} box {b}: FAB has {nc} components, plotfile {nfields}"))
            # the recorded position itself: one line from there, last four tokens
            size = os.path.getsize(fp)
            for off, b in lst:
                ok = False
                if 0 <= off < size:
                    with open(fp, "rb") as f:
                        f.seek(off)
                        line = f.readline()
                    try:
                        lo, hi, nc = parse_fab_header_line(line)
                        ok = True
                    except FormatError:
                        ok = False
                if not ok:
                    found.append(("fab-header-unreadable-at-recorded-position", f"L{lv} box {b}: {fname}@{off}"))
                elif (lo, hi) != idx[b]:
                    found.append(("index-range-differs", f"L{lv} box {b}: header at {fname}@{off} names {lo}-{hi}, level header {idx[b]}"))
    return found
