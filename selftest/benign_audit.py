#!/venv/bin/python
"""False-alarm audit: behaviour-preserving refactors (selftest/benign/*.diff) must leave the listed
checks green.  Each patch is applied to a scratch worktree of /repo (removed afterwards).
usage: selftest/benign_audit.py [--cases N] [--only B01,...]"""
import argparse, glob, json, os, subprocess, sys, tempfile, shutil
VERIF = os.path.dirname(os.path.dirname(os.path.abspath(__file__)))


def main():
    ap = argparse.ArgumentParser()
    ap.add_argument("--cases", type=int)
    ap.add_argument("--only")
    a = ap.parse_args()
    only = set(a.only.split(",")) if a.only else None
    bad = 0
    res = []
    for diff in sorted(glob.glob(os.path.join(VERIF, "selftest", "benign", "*.diff"))):
        name = os.path.basename(diff)[:-5]
        if only and name.split("-")[0] not in only:
            continue
        meta = json.load(open(diff[:-5] + ".json"))
        base = tempfile.mkdtemp(prefix="amrk-benign-", dir="/dev/shm")
        wt = os.path.join(base, "wt")
        subprocess.run(["git", "-C", "/repo", "worktree", "add", "--detach", "-f", wt, "HEAD"], capture_output=True)
        try:
            r = subprocess.run(["git", "-C", wt, "apply", "--whitespace=nowarn", diff], capture_output=True, text=True)
            if r.returncode:
                print(f"{name}: PATCH DOES NOT APPLY {r.stderr[-200:]}")
                bad += 1
                continue
            for chk in meta["checks"]:
                cmd = [os.path.join(VERIF, "check"), chk, "--tier", "quick", "--no-evidence", "--shrink-budget", "20"]
                if a.cases:
                    cmd += ["--cases", str(a.cases)]
                p = subprocess.run(cmd, env=dict(os.environ, AMRK_REPO=wt), capture_output=True, text=True, cwd=VERIF)
                ok = p.returncode == 0
                viol = [l for l in p.stdout.splitlines() if l.startswith(("violation:", "HARNESS"))]
                print(f"{name} -> {chk}: {'green' if ok else 'ALARM rc=' + str(p.returncode)} {viol[0][:200] if viol else ''}")
                sys.stdout.flush()
                res.append((name, chk, ok))
                bad += 0 if ok else 1
        finally:
            subprocess.run(["git", "-C", "/repo", "worktree", "remove", "--force", wt], capture_output=True)
            shutil.rmtree(base, ignore_errors=True)
    subprocess.run(["git", "-C", "/repo", "worktree", "prune"], capture_output=True)
    json.dump(res, open(os.path.join(VERIF, "selftest", "benign_audit.last.json"), "w"), indent=1)
    print(f"\n{len(res)} (refactor, check) pairs, {bad} alarms")
    return 1 if bad else 0


if __name__ == "__main__":
    sys.exit(main())
