#!/venv/bin/python
"""Determinism self-test: every case (seed) is executed twice in fresh interpreters, under two
PYTHONHASHSEED values and two fan-outs; per-case digests (choice log || event log || outcome)
must agree pairwise.

usage: selftest/determinism.py [--cases N] [PROP ...]
"""
import argparse
import json
import os
import subprocess
import sys
import tempfile

VERIF = os.path.dirname(os.path.dirname(os.path.abspath(__file__)))


def run(prop, cases, procs, hashseed, out, tier="quick"):
    env = dict(os.environ, AMRK_HASHSEED=str(hashseed))
    cmd = [os.path.join(VERIF, "check"), prop, "--cases", str(cases), "--procs", str(procs),
           "--digests", out, "--no-evidence", "--tier", tier, "--shrink-budget", "0"]
    p = subprocess.run(cmd, env=env, capture_output=True, text=True, cwd=VERIF)
    return p.returncode, p.stdout[-2000:]


def main():
    ap = argparse.ArgumentParser()
    ap.add_argument("props", nargs="*")
    ap.add_argument("--cases", type=int, default=200)
    args = ap.parse_args()
    props = args.props or sorted(f[:-3].upper() for f in os.listdir(os.path.join(VERIF, "sim", "props"))
                                 if f.startswith("c") and f[1:3].isdigit() and f.endswith(".py"))
    bad = 0
    for prop in props:
        with tempfile.TemporaryDirectory() as td:
            a = os.path.join(td, "a.json")
            b = os.path.join(td, "b.json")
            rc1, o1 = run(prop, args.cases, 16, 0, a)
            rc2, o2 = run(prop, args.cases, 5, 12345, b)
            if not (os.path.exists(a) and os.path.exists(b)):
                print(f"{prop}: FAILED to produce digests rc={rc1},{rc2}\n{o1}\n{o2}")
                bad += 1
                continue
            da = json.load(open(a))
            db = json.load(open(b))
            diff = [k for k in sorted(set(da) | set(db), key=int) if da.get(k) != db.get(k)]
            print(f"{prop}: {len(da)} cases twice (PYTHONHASHSEED 0 / 12345, 16 / 5 processes): "
                  f"{'IDENTICAL' if not diff else 'DIFFER in cases ' + str(diff[:10])}  (rc {rc1},{rc2})")
            if diff:
                bad += 1
                for k in diff[:2]:
                    print("   ", k, da.get(k), "\n   ", k, db.get(k))
    return 1 if bad else 0


if __name__ == "__main__":
    sys.exit(main())
