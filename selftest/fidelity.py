#!/venv/bin/python
"""Fidelity self-test: SimPool's modelled semantics against the REAL multiprocessing.Pool on toy tasks
(observation, used only to validate the stub, never as a check):

  1. map: result list, chunk composition (which items share a worker back-to-back is implied by chunk size)
  2. map with failing tasks: exception type, and that inside a failing chunk the items after the failing one
     never run while every other chunk runs completely
  3. ordered imap with a failing task: items before it are delivered, the exception surfaces at its index
  4. imap_unordered: multiset of results
  5. a generator argument that raises: surfaces as an exception from the iterator, earlier items delivered
  6. real colander / reader / taste runs under the real pool give the same bytes/values as the simulated ones
"""
import multiprocessing
import os
import shutil
import sys
import tempfile

VERIF = os.path.dirname(os.path.dirname(os.path.abspath(__file__)))
sys.path.insert(0, VERIF)
sys.path.insert(0, os.path.join(VERIF, "selftest"))
os.environ.setdefault("TQDM_DISABLE", "1")
REAL_POOL = multiprocessing.Pool

import fid_funcs as F                                   # noqa: E402
from sim import core, world                              # noqa: E402
from sim.choice import RandomSource                      # noqa: E402
from sim.pool import SimPool                             # noqa: E402

fails = []


def expect(cond, msg):
    print(("ok   " if cond else "FAIL ") + msg)
    if not cond:
        fails.append(msg)


def ran(d):
    out = sorted(int(f[4:]) for f in os.listdir(d) if f.startswith("ran_"))
    for f in os.listdir(d):
        os.remove(os.path.join(d, f))
    return out


def sim_ctx(seed):
    ctx = core.Ctx(RandomSource(seed), tempfile.mkdtemp(dir="/dev/shm"))
    ctx.nontrivial_sched = False
    ctx.i3_violations = []
    core.CUR = ctx
    return ctx


def outcome(fn):
    try:
        return ("ok", fn())
    except BaseException as e:
        return ("exc", type(e).__name__, str(e))


def main():
    d = tempfile.mkdtemp(dir="/dev/shm")
    try:
        for W in (1, 2, 3, 4):
            for n in (1, 3, 7, 13, 33):
                args = [(d, i) for i in range(n)]
                with REAL_POOL(W) as p:
                    real = outcome(lambda: p.map(F.touch_and_square, args))
                real_ran = ran(d)
                sims = set()
                for seed in range(6):
                    ctx = sim_ctx(seed)
                    sp = SimPool(W)
                    sims.add(repr(outcome(lambda: sp.map(F.touch_and_square, args))))
                    ran(d)
                    shutil.rmtree(ctx.scratch)
                expect(repr(real) in sims and len(sims) == 1, f"map W={W} n={n}: real result equals the simulated one")
                # failing tasks
                with REAL_POOL(W) as p:
                    real = outcome(lambda: p.map(F.fail_on_multiple_of_5, args))
                real_ran = ran(d)
                sim_out, sim_ran = set(), set()
                for seed in range(12):
                    ctx = sim_ctx(seed)
                    sp = SimPool(W)
                    o = outcome(lambda: sp.map(F.fail_on_multiple_of_5, args))
                    sim_out.add(repr(o[:2]))
                    sim_ran.add(tuple(ran(d)))
                    shutil.rmtree(ctx.scratch)
                expect(repr(real[:2]) in sim_out, f"map+failure W={W} n={n}: real outcome class {real[:2]} is simulated")
                expect(tuple(real_ran) in sim_ran,
                       f"map+failure W={W} n={n}: the set of tasks that ran for real ({len(real_ran)}/{n}) is a simulated one")
        # ordered imap with failure
        n, W = 12, 3
        args = [(d, i) for i in range(n)]

        def consume(it):
            got = []
            try:
                for v in it:
                    got.append(v)
            except BaseException as e:
                return got, type(e).__name__
            return got, None
        with REAL_POOL(W) as p:
            real = consume(p.imap(F.fail_on_multiple_of_5, args))
        ran(d)
        sims = set()
        for seed in range(12):
            ctx = sim_ctx(seed)
            sp = SimPool(W)
            g, e = consume(sp.imap(F.fail_on_multiple_of_5, args))
            sims.add((tuple(g), e))
            ctx.drain_pools()
            ran(d)
            shutil.rmtree(ctx.scratch)
        expect((tuple(real[0]), real[1]) in sims and len(sims) == 1, f"imap+failure: delivered prefix {real[0]} then {real[1]}")
        with REAL_POOL(W) as p:
            real = sorted(p.imap_unordered(F.touch_and_square, args))
        ran(d)
        ctx = sim_ctx(3)
        sim = sorted(SimPool(W).imap_unordered(F.touch_and_square, args))
        ran(d)
        expect(real == sim, "imap_unordered: multiset of results")
        with REAL_POOL(W) as p:
            real = consume(p.imap(F.touch_and_square, F.gen_raising(d, 8, 5)))
        ran(d)
        sims = set()
        for seed in range(8):
            ctx = sim_ctx(seed)
            g, e = consume(SimPool(W).imap(F.touch_and_square, F.gen_raising(d, 8, 5)))
            sims.add((tuple(g), e))
            ctx.drain_pools()
            ran(d)
        expect((tuple(real[0]), real[1]) in sims, f"generator argument raising: real {real} among simulated {sims}")
        core.CUR = None
        # real tools under the real pool vs the simulator
        from sim.props import common
        m = world.gen_world(RandomSource(77), force_3d=True)
        p1 = os.path.join(d, "plt")
        world.write_plotfile(m, p1)
        from amr_kitchen.colander.colander import Colander
        from amr_kitchen import PlotfileCooker
        cwd = os.getcwd()
        os.chdir(d)
        Colander(plotfile=p1, output=os.path.join(d, "real_out"), variables=["all"]).strain()
        real_dig = common.tree_digest(os.path.join(d, "real_out"))
        real_vals = [a.tobytes() for a in PlotfileCooker(p1)[:][0][:]]
        from sim import runner
        runner.setup_process()
        digs = set()
        for seed in range(5):
            ctx = sim_ctx(seed)
            out = os.path.join(d, f"sim_out{seed}")
            core.run_tool(ctx, lambda: Colander(plotfile=p1, output=out, variables=["all"]).strain(), cwd=d)
            digs.add(repr(sorted(common.tree_digest(out).items())))
            o = core.run_tool(ctx, lambda: PlotfileCooker(p1)[:][0][:])
            expect([a.tobytes() for a in o.value] == real_vals, f"reader selection under SimPool seed {seed} equals the real pool's values")
        os.chdir(cwd)
        core.CUR = None
        expect(digs == {repr(sorted(real_dig.items()))}, "colander output under the real pool is byte-identical to every simulated run")
    finally:
        shutil.rmtree(d, ignore_errors=True)
    print(f"\n{'ALL OK' if not fails else str(len(fails)) + ' FAILURES'}")
    return 1 if fails else 0


if __name__ == "__main__":
    sys.exit(main())
