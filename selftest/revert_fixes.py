#!/venv/bin/python
"""Sensitivity self-test: every `fixed` entry of known_findings.json must be reported again
when its repair is reverted.  For each fix commit a scratch worktree of /repo (outside /repo
and /verif, removed afterwards) gets `git revert -n <commit>`, and the quick checks listed in
`detected_by` are run against it (AMRK_REPO).  Prints one line per (fix, check).

usage: selftest/revert_fixes.py [--only F07,F12] [--cases N]
"""
import argparse
import json
import os
import shutil
import subprocess
import sys
import tempfile

VERIF = os.path.dirname(os.path.dirname(os.path.abspath(__file__)))


def sh(*cmd, **kw):
    return subprocess.run(cmd, capture_output=True, text=True, **kw)


def main():
    ap = argparse.ArgumentParser()
    ap.add_argument("--only")
    ap.add_argument("--cases", type=int)
    args = ap.parse_args()
    kf = json.load(open(os.path.join(VERIF, "known_findings.json")))["findings"]
    only = set(args.only.split(",")) if args.only else None
    results = []
    base = tempfile.mkdtemp(prefix="amrk-revert-", dir="/dev/shm")
    try:
        for f in kf:
            if f["status"] != "fixed" or (only and f["id"] not in only):
                continue
            wt = os.path.join(base, f["id"])
            r = sh("git", "-C", "/repo", "worktree", "add", "--detach", "-f", wt, "HEAD")
            if r.returncode:
                print(f["id"], "worktree failed", r.stderr[-300:])
                continue
            try:
                r = sh("git", "-C", wt, "revert", "-n", f["commit"])
                if r.returncode:
                    results.append((f["id"], f["commit"], "-", "REVERT-CONFLICT"))
                    print(f"{f['id']} {f['commit']}: revert conflicts with later commits (skipped): {f['what'][:70]}")
                    continue
                for chk in f["detected_by"]:
                    env = dict(os.environ, AMRK_REPO=wt)
                    cmd = [os.path.join(VERIF, "check"), chk, "--tier", "quick", "--no-evidence", "--shrink-budget", "40"]
                    if args.cases:
                        cmd += ["--cases", str(args.cases)]
                    p = subprocess.run(cmd, env=env, capture_output=True, text=True, cwd=VERIF)
                    viol = [l for l in p.stdout.splitlines() if l.startswith("VIOLATION")]
                    verdict = "DETECTED" if (p.returncode == 1 and viol) else f"MISSED(rc={p.returncode})"
                    results.append((f["id"], f["commit"], chk, verdict))
                    print(f"{f['id']} {f['commit']} revert -> {chk}: {verdict}  [{f['what'][:60]}]")
                    sys.stdout.flush()
            finally:
                sh("git", "-C", "/repo", "worktree", "remove", "--force", wt)
    finally:
        shutil.rmtree(base, ignore_errors=True)
        sh("git", "-C", "/repo", "worktree", "prune")
    missed = [r for r in results if r[3].startswith("MISSED")]
    print(f"\n{len(results)} (fix, check) pairs: {sum(r[3] == 'DETECTED' for r in results)} detected, "
          f"{len(missed)} missed, {sum(r[3] == 'REVERT-CONFLICT' for r in results)} revert conflicts")
    with open(os.path.join(VERIF, "selftest", "revert_fixes.last.json"), "w") as fh:
        json.dump(results, fh, indent=1)
    return 1 if missed else 0


if __name__ == "__main__":
    sys.exit(main())
