"""Module-level task functions for the SimPool fidelity self-test (must be picklable by reference)."""
import os


def touch_and_square(arg):
    d, i = arg
    with open(os.path.join(d, f"ran_{i}"), "w") as f:
        f.write(str(os.getpid()))
    return i * i


def fail_on_multiple_of_5(arg):
    d, i = arg
    with open(os.path.join(d, f"ran_{i}"), "w") as f:
        f.write(str(os.getpid()))
    if i % 5 == 4:
        raise ValueError(f"task {i}")
    return i


def gen_raising(d, n, bad):
    for i in range(n):
        if i == bad:
            raise KeyError("generator failed")
        yield (d, i)


def add(a, b):
    return a + b


def boom(x):
    raise RuntimeError(f"boom {x}")
