#!/venv/bin/python
"""Fidelity of one modelled CPython hazard: imap / imap_unordered over ZERO tasks on a pool that only the
returned iterator keeps alive blocks for ever (the task-handler thread drops the last reference to the pool
while holding the iterator's condition).  Each ownership pattern is run (a) under the real
multiprocessing.Pool in a child interpreter with a 20 s timeout and (b) under SimPool; "hangs" must coincide
with SimDeadlock.   usage: selftest/real_pool_hazards.py"""
import os
import subprocess
import sys
import tempfile

VERIF = os.path.dirname(os.path.dirname(os.path.abspath(__file__)))
PATTERNS = '''
import multiprocessing
g = abs
def with_block():
    with multiprocessing.Pool(2) as pool:
        return list(pool.imap(g, []))
def local_alive():
    pool = multiprocessing.Pool(2)
    it = pool.imap(g, [])
    return list(it)
class K:
    def __init__(self): self.pool = multiprocessing.Pool(2)
    def it(self): return self.pool.imap(g, [])
def attribute_held():
    k = K()
    return list(k.it())
def orphan():
    def mk():
        pool = multiprocessing.Pool(2)
        return pool.imap(g, [])
    return list(mk())
def orphan_unordered():
    def mk():
        pool = multiprocessing.Pool(2)
        return pool.imap_unordered(g, [])
    return list(mk())
def orphan_nonempty():
    def mk():
        pool = multiprocessing.Pool(2)
        return pool.imap(g, [1, 2, 3])
    return list(mk())
NAMES = ["with_block", "local_alive", "attribute_held", "orphan", "orphan_unordered", "orphan_nonempty"]
'''


def main():
    ns = {}
    exec(PATTERNS, ns)
    names = ns["NAMES"]
    real = {}
    with tempfile.TemporaryDirectory(dir="/dev/shm") as d:
        f = os.path.join(d, "patterns_real.py")
        with open(f, "w") as fh:
            fh.write(PATTERNS + "\nimport sys\nif __name__ == '__main__':\n    print(globals()[sys.argv[1]]())\n")
        for n in names:
            p = subprocess.run(["timeout", "20", sys.executable, f, n], capture_output=True, text=True)
            real[n] = "hangs" if p.returncode == 124 else ("returns" if p.returncode == 0 else f"rc{p.returncode}")
    sys.path.insert(0, VERIF)
    from sim import runner, core
    from sim.choice import RandomSource
    runner.setup_process()
    scratch = tempfile.mkdtemp(dir="/dev/shm", prefix="amrk-verif-hz-")
    ctx = core.Ctx(RandomSource(1), scratch, prop="selftest")
    ctx.listdir_rot, ctx.nontrivial_sched, ctx.i3_violations = 0, False, []
    core.CUR = ctx
    ns2 = {}
    exec(PATTERNS, ns2)          # `multiprocessing.Pool` is the simulated pool by now
    bad = 0
    for n in names:
        o = core.run_tool(ctx, ns2[n])
        sim = "hangs" if isinstance(o.exc, core.SimDeadlock) else ("returns" if o.ok else f"raises {o.exc!r}")
        ok = sim == real[n]
        bad += 0 if ok else 1
        print(f"{n:18s} real pool: {real[n]:8s} simulated pool: {sim:8s} {'OK' if ok else 'MISMATCH'}")
    import shutil
    shutil.rmtree(scratch, ignore_errors=True)
    print("ALL OK" if not bad else f"{bad} MISMATCHES")
    return 1 if bad else 0


if __name__ == "__main__":
    sys.exit(main())
