#!/venv/bin/python
"""MANIFEST.setup_cmd: verify the offline environment and byte-compile the simulator."""
import compileall
import importlib
import os
import sys

VERIF = os.path.dirname(os.path.dirname(os.path.abspath(__file__)))
ok = True
for mod in ("numpy", "scipy", "cantera", "pathos", "dill", "tqdm", "matplotlib", "humanize"):
    try:
        importlib.import_module(mod)
    except Exception as e:
        print(f"setup: cannot import {mod}: {e}")
        ok = False
try:
    import amr_kitchen
    print("setup: amr_kitchen from", os.path.dirname(amr_kitchen.__file__))
except Exception as e:
    print("setup: cannot import amr_kitchen:", e)
    ok = False
if not compileall.compile_dir(os.path.join(VERIF, "sim"), quiet=1):
    ok = False
os.makedirs(os.path.join(VERIF, "evidence"), exist_ok=True)
os.makedirs(os.path.join(VERIF, "replays"), exist_ok=True)
print("setup:", "ok" if ok else "FAILED")
sys.exit(0 if ok else 1)
