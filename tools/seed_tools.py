#!/venv/bin/python
"""Seeded-change management.

  seed_tools.py confirm <agent_dir> <seed_id>
      agent_dir holds patch.diff, demo.py, meta.json written by a sub-agent.  In a scratch worktree
      of /repo (under /dev/shm, removed afterwards): demo passes on the clean tree, patch applies,
      the pinned test suite still has its 40 passes, demo fails with the patch.  On success the
      change is stored as /verif/seeded/<seed_id>/ (patch.diff, demo.py, meta.json).

  seed_tools.py run [--only id,id] [--all-checks] [--tier quick]
      applies every stored patch to a scratch worktree and runs the check of the property it breaks
      (and, with --all-checks, every check); writes seeded/results.json and seeded/INDEX.md.
"""
import argparse
import json
import os
import shutil
import subprocess
import sys
import tempfile

VERIF = os.path.dirname(os.path.dirname(os.path.abspath(__file__)))
SEEDED = os.path.join(VERIF, "seeded")
PY = "/venv/bin/python"
ALL = ["C01", "C03", "C04", "C05", "C06", "C07", "C08", "C09", "C10", "C11", "C12", "C13", "C14", "C15",
       "C16", "C17", "C20"]


def sh(cmd, **kw):
    return subprocess.run(cmd, capture_output=True, text=True, **kw)


class Worktree:
    def __enter__(self):
        self.base = tempfile.mkdtemp(prefix="amrk-seed-", dir="/dev/shm")
        self.wt = os.path.join(self.base, "wt")
        r = sh(["git", "-C", "/repo", "worktree", "add", "--detach", "-f", self.wt, "HEAD"])
        if r.returncode:
            raise RuntimeError(r.stderr)
        return self.wt

    def __exit__(self, *a):
        sh(["git", "-C", "/repo", "worktree", "remove", "--force", self.wt])
        shutil.rmtree(self.base, ignore_errors=True)
        sh(["git", "-C", "/repo", "worktree", "prune"])


def run_demo(wt, demo):
    env = dict(os.environ, PYTHONPATH=wt, TQDM_DISABLE="1", MPLBACKEND="Agg")
    p = subprocess.run(["timeout", "600", PY, demo], cwd=wt, env=env, capture_output=True, text=True)
    return p.returncode, (p.stdout + p.stderr)[-1500:]


def run_tests(wt):
    p = subprocess.run(["timeout", "1500", PY, "-m", "pytest", "-q", "-p", "no:cacheprovider", "--timeout=900",
                        "-x", "--deselect", "test/test_chk2plt.py::Testchk2plt::test_chk2plt"],
                       cwd=wt, capture_output=True, text=True, env=dict(os.environ, TQDM_DISABLE="1"))
    tail = p.stdout.strip().splitlines()[-1] if p.stdout.strip() else ""
    return p.returncode, tail


def confirm(agent_dir, seed_id):
    patch = os.path.join(agent_dir, "patch.diff")
    demo = os.path.join(agent_dir, "demo.py")
    meta = json.load(open(os.path.join(agent_dir, "meta.json")))
    report = {}
    with Worktree() as wt:
        ddir = os.path.join(wt, "_seeded", "X")
        os.makedirs(ddir)
        shutil.copy(demo, os.path.join(ddir, "demo.py"))
        d = os.path.join("_seeded", "X", "demo.py")
        rc0, out0 = run_demo(wt, d)
        report["demo_clean_rc"] = rc0
        r = sh(["git", "-C", wt, "apply", "--whitespace=nowarn", patch])
        report["apply_rc"] = r.returncode
        if r.returncode:
            report["apply_err"] = r.stderr[-500:]
            print(json.dumps(report, indent=1))
            return 1
        rct, tail = run_tests(wt)
        report["tests_rc"] = rct
        report["tests_tail"] = tail
        rc1, out1 = run_demo(wt, d)
        report["demo_patched_rc"] = rc1
        report["demo_patched_out"] = out1[-600:]
        if rc0 != 0:
            report["demo_clean_out"] = out0[-600:]
    ok = report["demo_clean_rc"] == 0 and report["tests_rc"] == 0 and report["demo_patched_rc"] not in (0, 124)
    report["confirmed"] = ok
    print(json.dumps(report, indent=1))
    if ok:
        dst = os.path.join(SEEDED, seed_id)
        os.makedirs(dst, exist_ok=True)
        shutil.copy(patch, os.path.join(dst, "patch.diff"))
        shutil.copy(demo, os.path.join(dst, "demo.py"))
        meta["id"] = seed_id
        meta["confirmation"] = {
            "what_was_run": "scratch worktree of /repo HEAD: demo.py on the clean tree (exit 0), git apply patch.diff, "
                            "pinned pytest suite (40 baseline tests pass), demo.py with the patch (non-zero exit)",
            "repo_head": sh(["git", "-C", "/repo", "rev-parse", "--short", "HEAD"]).stdout.strip(),
            "tests": report["tests_tail"], "demo_patched_rc": report["demo_patched_rc"],
            "demo_patched_out": report["demo_patched_out"][-300:]}
        json.dump(meta, open(os.path.join(dst, "meta.json"), "w"), indent=1)
    return 0 if ok else 1


def run(only, all_checks, tier, cases):
    res_path = os.path.join(SEEDED, "results.json")
    results = json.load(open(res_path)) if os.path.exists(res_path) else {}
    ids = sorted(d for d in os.listdir(SEEDED) if os.path.isfile(os.path.join(SEEDED, d, "patch.diff")))
    if only:
        ids = [i for i in ids if i in only]
    for sid in ids:
        meta = json.load(open(os.path.join(SEEDED, sid, "meta.json")))
        prop = meta["property"]
        checks = ALL if all_checks else [prop]
        with Worktree() as wt:
            r = sh(["git", "-C", wt, "apply", "--whitespace=nowarn", os.path.join(SEEDED, sid, "patch.diff")])
            if r.returncode:
                print(sid, "PATCH DOES NOT APPLY", r.stderr[-300:])
                results.setdefault(sid, {})["_apply"] = "failed"
                continue
            for chk in checks:
                cmd = [os.path.join(VERIF, "check"), chk, "--tier", tier, "--no-evidence", "--shrink-budget", "30"]
                if cases:
                    cmd += ["--cases", str(cases)]
                p = subprocess.run(cmd, env=dict(os.environ, AMRK_REPO=wt), capture_output=True, text=True, cwd=VERIF)
                viol = [l for l in p.stdout.splitlines() if l.startswith("violation:")]
                verdict = "detected" if p.returncode == 1 else ("clean" if p.returncode == 0 else f"harness-rc{p.returncode}")
                results.setdefault(sid, {})[chk] = {"verdict": verdict, "tier": tier,
                                                    "first": viol[0][:300] if viol else ""}
                print(f"{sid} [{prop}] -> {chk}: {verdict} {viol[0][:160] if viol else ''}")
                sys.stdout.flush()
        json.dump(results, open(res_path, "w"), indent=1, sort_keys=True)
    write_index(results)


def write_index(results):
    lines = ["# Seeded changes", "",
             "Each directory holds `patch.diff` (relative to /repo HEAD at the time it was confirmed), the author's",
             "`demo.py` (passes on the clean tree, fails with the patch) and `meta.json`. All were written by",
             "sub-agents that saw only the property text and a scratch worktree; each was confirmed by",
             "`tools/seed_tools.py confirm` (patch applies, 40 baseline tests pass, demo fails with / passes without).",
             "`tools/seed_tools.py run` applies each to a scratch worktree and runs the checks against it.", "",
             "| id | property | what was changed | needs | own check | other checks that also report it |",
             "|---|---|---|---|---|---|"]
    for sid in sorted(results):
        mp = os.path.join(SEEDED, sid, "meta.json")
        if not os.path.exists(mp):
            continue
        meta = json.load(open(mp))
        r = results[sid]
        own = r.get(meta["property"], {}).get("verdict", "not run")
        others = sorted(k for k, v in r.items() if k != meta["property"] and isinstance(v, dict) and v.get("verdict") == "detected")
        lines.append(f"| {sid} | {meta['property']} | {meta.get('summary', '').replace('|', '/')} | "
                     f"{meta.get('needs', '').replace('|', '/')} | {own} | {', '.join(others)} |")
    open(os.path.join(SEEDED, "INDEX.md"), "w").write("\n".join(lines) + "\n")


def main():
    ap = argparse.ArgumentParser()
    sub = ap.add_subparsers(dest="cmd", required=True)
    c = sub.add_parser("confirm")
    c.add_argument("agent_dir")
    c.add_argument("seed_id")
    r = sub.add_parser("run")
    r.add_argument("--only")
    r.add_argument("--all-checks", action="store_true")
    r.add_argument("--tier", default="quick")
    r.add_argument("--cases", type=int)
    sub.add_parser("index")
    a = ap.parse_args()
    if a.cmd == "confirm":
        return confirm(a.agent_dir, a.seed_id)
    if a.cmd == "index":
        write_index(json.load(open(os.path.join(SEEDED, "results.json"))))
        return 0
    return run(set(a.only.split(",")) if a.only else None, a.all_checks, a.tier, a.cases)


if __name__ == "__main__":
    sys.exit(main() or 0)
