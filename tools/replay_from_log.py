#!/venv/bin/python
"""Re-create replay files from the REPLAY-INLINE lines of a check's log (e.g. one kept by `vp check`).

usage: tools/replay_from_log.py <logfile> [outdir]     -> writes <outdir>/<property>-from-log-<n>.json
"""
import base64
import gzip
import json
import os
import sys


def main():
    log = sys.argv[1]
    out = sys.argv[2] if len(sys.argv) > 2 else os.path.join(os.path.dirname(os.path.dirname(os.path.abspath(__file__))), "replays")
    os.makedirs(out, exist_ok=True)
    n = 0
    for line in open(log, errors="replace"):
        if line.startswith("REPLAY-INLINE "):
            data = gzip.decompress(base64.b64decode(line.split(None, 1)[1].strip()))
            prop = json.loads(data).get("property", "X")
            path = os.path.join(out, f"{prop}-from-log-{n}.json")
            with open(path, "wb") as fh:
                fh.write(data)
            print(path)
            n += 1
    return 0 if n else 1


if __name__ == "__main__":
    sys.exit(main())
