#!/venv/bin/python
"""Generate /verif/MANIFEST.json from the property modules that exist."""
import json
import os
import subprocess
import sys

VERIF = os.path.dirname(os.path.dirname(os.path.abspath(__file__)))
sys.path.insert(0, VERIF)

NA = [
    ("C02", "opening a plotfile is a deterministic, sequential parse of text headers (no pool, no write, no "
            "timer, no allocation-dependent value): a pure function of the input files, so there is nothing for "
            "a scheduler or fault injector to decide; checking it by input generation alone would be a different "
            "technique (DESIGN.md section 2)"),
    ("C18", "menu and minuterie print a pure function of the header text and marinate pickles the object built "
            "by that same pure parse; no pool, no fault, no history in the property (DESIGN.md section 2)"),
    ("C19", "under the property's precondition (interior cell centre) the point query reads one box in-process "
            "and interpolates: a pure function of (plotfile, point); no schedule, fault or history "
            "(DESIGN.md section 2)"),
]

META = {
    "C01": ("exploration", "4 C01", "seeded simulation: reader selections under SimPool schedules vs reference model"),
    "C03": ("exploration", "4 C03", "seeded simulation: all 16 taste option sets x limits x fail/nofail under SimPool schedules"),
    "C04": ("fault_enumeration", "4 C04", "storage-fault enumeration: every damage site of each sampled world, taste verdict vs strict validator"),
    "C05": ("exploration", "4 C05", "seeded simulation: colander under SimPool schedules vs reference model (fault-free arm of C13)"),
    "C06": ("exploration", "4 C06", "seeded simulation: combine on independently laid-out inputs under SimPool schedules vs reference model"),
    "C07": ("exploration", "4 C07", "seeded simulation with poisoned np.empty: designed-field oracles + poison differential + serial/pool equivalence"),
    "C08": ("exploration", "4 C08", "seeded simulation with poisoned np.empty: covering-grid oracle + poison differential + serial/pool equivalence"),
    "C09": ("exploration", "4 C09", "seeded simulation: pestle under SimPool schedules vs reference integral"),
    "C10": ("exploration", "4 C10", "seeded simulation: whip under enumerated imap_unordered completion orders vs covering grid"),
    "C11": ("exploration", "4 C11", "seeded simulation: chef (user + Cantera recipes) under SimPool (inline+fork) vs independent evaluation"),
    "C12": ("exploration", "4 C12", "schedule enumeration (all orders for <=4 tasks per call, W in {1,2,n,16}, eager/lazy) + sampled schedules; output digests equal; task-isolation (I3) and shared-file-offset hazard rules"),
    "C13": ("fault_enumeration", "4 C13", "I/O fault enumeration at every open/write/close/mkdir site of each sampled run (errno, torn, short, deferred, crash) + unreadable inputs (at open and part-way through a file) + re-run histories; audit hook + input snapshots"),
    "C14": ("exploration", "4 C14", "seeded histories of tool operations on the simulated disk vs composed pure operations"),
    "C15": ("exploration", "4 C15", "seeded simulation: level iteration under SimPool schedules vs reference model"),
    "C16": ("exploration", "4 C16", "seeded simulation with poisoned np.empty and randomised file-split knob: plotfile-format slice vs designed fields"),
    "C17": ("exploration", "4 C17", "seeded simulation with poisoned np.empty: chk2plt on synthetic checkpoints vs reference model"),
    "C20": ("fault_enumeration", "4 C20", "storage-fault enumeration incl. accept-biased edits: taste-accepts => reader reads the right FAB"),
}

TEXT = {
    "exploration": ("Seeded search over simulated executions of the real code: every pool schedule, poison, "
                    "environment and generated input of a run comes from one choice sequence; a clean batch is "
                    "evidence over the sampled cases (counts in the evidence file), not a proof."),
    "fault_enumeration": ("For each sampled world/run the fault or damage sites are enumerated (every site once per "
                          "applicable kind below the cap, pairs sampled); worlds themselves are sampled. Evidence "
                          "counts sites hit and fault kinds fired."),
}

NOTE = ("Trusted base: sim/world.py model + generator, sim/reader.py independent reader/validator, SimPool's "
        "mirror of CPython pool semantics (atomic-task scheduling justified by invariant I3, DESIGN.md section 1), "
        "the kernel tmpfs. Inputs are small generated worlds (<= ~2e4 cells).")


def main():
    checks = []
    claimed = []
    for pid in sorted(META):
        if not os.path.exists(os.path.join(VERIF, "sim", "props", pid.lower() + ".py")):
            continue
        level, ref, tech = META[pid]
        claimed.append(pid)
        checks.append({
            "property_id": pid,
            "quick_cmd": f"./check {pid} --tier quick",
            "thorough_cmd": f"./check {pid} --tier thorough",
            "evidence_file": f"/verif/evidence/{pid}.json",
            "replay_cmd_template": f"./check {pid} --replay {{path}}",
            "engine": "amrk-sim",
            "level_claimed": {"category": level, "text": TEXT[level], "design_ref": f"DESIGN.md section {ref}"},
            "level_note": NOTE,
            "technique": "deterministic simulation with fault injection: " + tech,
        })
    try:
        commits = subprocess.run(["git", "-C", "/repo", "log", "--format=%H %s"], capture_output=True,
                                 text=True).stdout.splitlines()
    except Exception:
        commits = []
    hook_commits = [c.split()[0] for c in commits if " hook:" in c or c.split(" ", 1)[1].startswith("hook:")]
    man = {
        "version": 1,
        "setup_cmd": "/venv/bin/python /verif/tools/setup_check.py",
        "hooks": {
            "guard": "AMR_KITCHEN_VERIF",
            "enable": "checks set AMR_KITCHEN_VERIF=1 in the environment of their worker processes; nothing is "
                      "built (pure Python, /repo is an editable install); all other seams are harness-side rebinding "
                      "of names the modules look up at call time",
            "baseline_off_cmd": "cd /repo && env -u AMR_KITCHEN_VERIF /venv/bin/python -m pytest -ra -q -p no:cacheprovider --timeout=900 --continue-on-collection-errors",
            "source_commits": hook_commits,
            "add_only": True,
        },
        "engines": [{"name": "amrk-sim", "path": "/verif/sim", "serves_properties": claimed,
                     "kind_free_text": "own deterministic simulator: seeded choice sequence, SimPool (inline + "
                                       "forked workers), SimFS fault proxies + audit hook, storage-damage operators, "
                                       "poisoned np.empty, choice-sequence shrinker, replay files"}],
        "checks": checks,
        "notes": "See DESIGN.md. ./check <ID> --replay <file> re-executes a replay file in a fresh interpreter. "
                 "known_findings.json lists recorded (open) and repaired (fixed) genuine defects.",
        "not_applicable": [{"property_id": p, "reason": r} for p, r in NA] +
                          [{"property_id": p, "reason": "check not built yet in this round (planned, see DESIGN.md section 4)"}
                           for p in sorted(META) if p not in claimed],
    }
    with open(os.path.join(VERIF, "MANIFEST.json"), "w") as f:
        json.dump(man, f, indent=1)
    print("claimed:", claimed)


if __name__ == "__main__":
    main()
